(** C15, second sentence: the indent invariant and the indentation discipline
    of the formatter model, for every small/big decision oracle.

    Plan.  [rel i t a rs] relates the formatter state (indent [i], tuple
    stack [t], angle stack [a]) to the stack [rs] the independent reader
    [discipline_from] has at the same point: [map fst rs] is the bracket stack
    of [nested_from], the flag of an entry says "broken over several lines"
    (brace: always; paren / angle: iff the scope is [Big]); [i] is the number of
    broken entries.  [discipline_main] then follows the reader through the
    chunks emitted by [step], one lemma per look-ahead of the reader. *)
From Coq Require Import List NArith ZArith Bool Lia.
From V Require Import Model.Format Model.FormatSpec Proofs.FormatProofs.
Import ListNotations.
Open Scope N_scope.

(** * characters *)

Definition other (c : N) : Prop :=
  (c =? c_lbrace) = false /\ (c =? c_rbrace) = false /\ (c =? c_comma) = false /\
  (c =? c_lparen) = false /\ (c =? c_rparen) = false /\
  (c =? c_langle) = false /\ (c =? c_rangle) = false.

Lemma classify c :
  c = c_lbrace \/ c = c_rbrace \/ c = c_comma \/ c = c_lparen \/ c = c_rparen \/
  c = c_langle \/ c = c_rangle \/ other c.
Proof.
  unfold other.
  destruct (N.eqb_spec c c_lbrace) as [?|_]; [tauto|].
  destruct (N.eqb_spec c c_rbrace) as [?|_]; [tauto|].
  destruct (N.eqb_spec c c_comma) as [?|_]; [tauto|].
  destruct (N.eqb_spec c c_lparen) as [?|_]; [tauto|].
  destruct (N.eqb_spec c c_rparen) as [?|_]; [tauto|].
  destruct (N.eqb_spec c c_langle) as [?|_]; [tauto|].
  destruct (N.eqb_spec c c_rangle) as [?|_]; [tauto|].
  repeat right. repeat split.
Qed.

Lemma other_opener c : other c -> opener c = None.
Proof.
  intros (H1 & H2 & H3 & H4 & H5 & H6 & H7). unfold opener. rewrite H1, H4, H6. reflexivity.
Qed.

Lemma other_closer c : other c -> closer c = None.
Proof.
  intros (H1 & H2 & H3 & H4 & H5 & H6 & H7). unfold closer. rewrite H2, H5, H7. reflexivity.
Qed.

Lemma ws_free_cons c s :
  ws_free (c :: s) = true ->
  (c =? c_space) = false /\ (c =? c_nl) = false /\ ws_free s = true.
Proof.
  unfold ws_free. cbn [forallb]. intro H.
  apply andb_prop in H as [Hc Hs]. apply negb_true_iff in Hc.
  apply orb_false_iff in Hc as [Ha Hb]. auto.
Qed.

(** * [nested_from] / [stack_after], one character *)

Lemma nested_open c k bs s :
  opener c = Some k -> nested_from bs (c :: s) = nested_from (k :: bs) s.
Proof. intro H. cbn [nested_from]. rewrite H. reflexivity. Qed.

Lemma nested_close c k bs s :
  opener c = None -> closer c = Some k -> nested_from bs (c :: s) = true ->
  exists bs0, bs = k :: bs0 /\ nested_from bs0 s = true.
Proof.
  intros Ho Hc H. cbn [nested_from] in H. rewrite Ho, Hc in H.
  destruct bs as [|k' bs0]; [discriminate|].
  apply andb_prop in H as [Hk Hn].
  exists bs0. split; [|exact Hn].
  destruct k, k'; cbn in Hk; try discriminate; reflexivity.
Qed.

Lemma nested_other c bs s :
  opener c = None -> closer c = None -> nested_from bs (c :: s) = nested_from bs s.
Proof. intros Ho Hc. cbn [nested_from]. rewrite Ho, Hc. reflexivity. Qed.

Lemma stack_after_open c k bs s :
  opener c = Some k -> stack_after bs (c :: s) = stack_after (k :: bs) s.
Proof. intro H. cbn [stack_after]. rewrite H. reflexivity. Qed.

Lemma stack_after_close c k bs s :
  opener c = None -> closer c = Some k -> stack_after (k :: bs) (c :: s) = stack_after bs s.
Proof.
  intros Ho Hc. cbn [stack_after]. rewrite Ho, Hc.
  destruct k; reflexivity.
Qed.

Lemma stack_after_other c bs s :
  opener c = None -> closer c = None -> stack_after bs (c :: s) = stack_after bs s.
Proof. intros Ho Hc. cbn [stack_after]. rewrite Ho, Hc. reflexivity. Qed.

Lemma map_fst_cons (k : bkind) bs0 (rs : list (bkind * bool)) :
  map fst rs = k :: bs0 -> exists b rs0, rs = (k, b) :: rs0 /\ map fst rs0 = bs0.
Proof.
  destruct rs as [|[k' b] rs0]; cbn [map fst]; intro H; [discriminate|].
  injection H as -> <-. eauto.
Qed.

(** * the reader without its fuel *)

Lemma count_spaces_length : forall l k r,
  count_spaces l = (k, r) -> (length r <= length l)%nat.
Proof.
  induction l as [|c l IH]; intros k r H; cbn [count_spaces] in H.
  - injection H as <- <-. cbn. lia.
  - destruct (c =? c_space).
    + destruct (count_spaces l) as [n r'] eqn:E. injection H as <- <-.
      specialize (IH n r' eq_refl). cbn [length]. lia.
    + injection H as <- <-. lia.
Qed.

Lemma discipline_from_cons f rs c out' :
  discipline_from (S f) rs (c :: out') =
  if c =? c_nl then
    let '(k, r) := count_spaces out' in
    Nat.eqb k (expected_spaces rs (hd_error r)) && discipline_from f rs r
  else
    match opener c with
    | Some KBrace => discipline_from f ((KBrace, true) :: rs) out'
    | Some k =>
        let broken := match out' with x :: _ => x =? c_nl | [] => false end in
        discipline_from f ((k, broken) :: rs) out'
    | None =>
        match closer c with
        | Some k =>
            match rs with
            | (k', _) :: st => bkind_eqb k k' && discipline_from f st out'
            | [] => false
            end
        | None => discipline_from f rs out'
        end
    end.
Proof. reflexivity. Qed.

(** any fuel above the length of the text gives the same answer *)
Lemma discipline_fuel : forall f1 f2 rs out,
  (length out < f1)%nat -> (length out < f2)%nat ->
  discipline_from f1 rs out = discipline_from f2 rs out.
Proof.
  induction f1 as [|f1 IH]; intros f2 rs out H1 H2; [lia|].
  destruct f2 as [|f2]; [lia|].
  destruct out as [|c out']; [reflexivity|].
  cbn [length] in H1, H2.
  rewrite !discipline_from_cons.
  destruct (c =? c_nl).
  - destruct (count_spaces out') as [k r] eqn:E.
    apply count_spaces_length in E. f_equal. apply IH; lia.
  - destruct (opener c) as [[]|]; try (apply IH; lia).
    destruct (closer c) as [kc|]; [|apply IH; lia].
    destruct rs as [|[k' fl] st]; [reflexivity|].
    f_equal. apply IH; lia.
Qed.

Definition disc (rs : list (bkind * bool)) (out : list N) : bool :=
  discipline_from (S (length out)) rs out.

Lemma disciplineb_disc out : disciplineb out = disc [] out.
Proof. reflexivity. Qed.

Lemma disc_cons rs c out' :
  disc rs (c :: out') =
  if c =? c_nl then
    let '(k, r) := count_spaces out' in
    Nat.eqb k (expected_spaces rs (hd_error r)) && disc rs r
  else
    match opener c with
    | Some KBrace => disc ((KBrace, true) :: rs) out'
    | Some k =>
        let broken := match out' with x :: _ => x =? c_nl | [] => false end in
        disc ((k, broken) :: rs) out'
    | None =>
        match closer c with
        | Some k =>
            match rs with
            | (k', _) :: st => bkind_eqb k k' && disc st out'
            | [] => false
            end
        | None => disc rs out'
        end
    end.
Proof.
  unfold disc. cbn [length]. rewrite discipline_from_cons.
  destruct (c =? c_nl).
  - destruct (count_spaces out') as [k r] eqn:E.
    apply count_spaces_length in E. f_equal. apply discipline_fuel; lia.
  - reflexivity.
Qed.

Lemma disc_nl rs out' k r :
  count_spaces out' = (k, r) ->
  disc rs (c_nl :: out') = Nat.eqb k (expected_spaces rs (hd_error r)) && disc rs r.
Proof. intro E. rewrite disc_cons. change (c_nl =? c_nl) with true. cbv iota. rewrite E. reflexivity. Qed.

Lemma disc_skip rs c out' :
  (c =? c_nl) = false -> opener c = None -> closer c = None ->
  disc rs (c :: out') = disc rs out'.
Proof. intros H1 H2 H3. rewrite disc_cons, H1, H2, H3. reflexivity. Qed.

Lemma disc_space rs out' : disc rs (c_space :: out') = disc rs out'.
Proof. apply disc_skip; reflexivity. Qed.

Lemma disc_comma rs out' : disc rs (c_comma :: out') = disc rs out'.
Proof. apply disc_skip; reflexivity. Qed.

Lemma disc_lbrace rs out' : disc rs (c_lbrace :: out') = disc ((KBrace, true) :: rs) out'.
Proof. rewrite disc_cons. reflexivity. Qed.

Lemma disc_lparen rs out' :
  disc rs (c_lparen :: out') = disc ((KParen, starts_nl out') :: rs) out'.
Proof. rewrite disc_cons. reflexivity. Qed.

Lemma disc_langle rs out' :
  disc rs (c_langle :: out') = disc ((KAngle, starts_nl out') :: rs) out'.
Proof. rewrite disc_cons. reflexivity. Qed.

Lemma disc_closer c k b rs out' :
  (c =? c_nl) = false -> opener c = None -> closer c = Some k ->
  disc ((k, b) :: rs) (c :: out') = disc rs out'.
Proof.
  intros H1 H2 H3. rewrite disc_cons, H1, H2, H3.
  destruct k; reflexivity.
Qed.

(** * leading spaces *)

Lemma count_spaces_space l :
  count_spaces (c_space :: l) = let '(n, r) := count_spaces l in (S n, r).
Proof. reflexivity. Qed.

Lemma count_spaces_nonspace c l :
  (c =? c_space) = false -> count_spaces (c :: l) = (O, c :: l).
Proof. intro H. cbn [count_spaces]. rewrite H. reflexivity. Qed.

Lemma count_spaces_repeat : forall n T k r,
  count_spaces T = (k, r) -> count_spaces (repeat c_space n ++ T) = ((n + k)%nat, r).
Proof.
  induction n as [|n IH]; intros T k r E; cbn [repeat app]; [exact E|].
  rewrite count_spaces_space, (IH T k r E). reflexivity.
Qed.

(** the reader ignores spaces that do not follow a line break *)
Lemma disc_spaces : forall T rs k r, count_spaces T = (k, r) -> disc rs T = disc rs r.
Proof.
  induction T as [|c T IH]; intros rs k r E; cbn [count_spaces] in E.
  - injection E as <- <-. reflexivity.
  - destruct (N.eqb_spec c c_space) as [->|Hne].
    + destruct (count_spaces T) as [n r'] eqn:E'. injection E as <- <-.
      rewrite disc_space. apply (IH rs n r' eq_refl).
    + injection E as <- <-. reflexivity.
Qed.

Lemma expected_none rs : expected_spaces rs None = (4 * depth rs)%nat.
Proof. reflexivity. Qed.

Lemma expected_lbrace rs : expected_spaces rs (Some c_lbrace) = (4 * depth rs + 1)%nat.
Proof. reflexivity. Qed.

Lemma expected_plain rs x :
  (x =? c_lbrace) = false -> closer x = None ->
  expected_spaces rs (Some x) = (4 * depth rs)%nat.
Proof. intros H1 H2. unfold expected_spaces. rewrite H1, H2. reflexivity. Qed.

Lemma expected_closer_unbroken rs0 k' x k :
  (x =? c_lbrace) = false -> closer x = Some k ->
  expected_spaces ((k', false) :: rs0) (Some x) = (4 * depth ((k', false) :: rs0))%nat.
Proof. intros H1 H2. unfold expected_spaces. rewrite H1, H2. reflexivity. Qed.

Lemma expected_closer_broken rs0 k' x k :
  (x =? c_lbrace) = false -> closer x = Some k ->
  expected_spaces ((k', true) :: rs0) (Some x) = (4 * depth rs0)%nat.
Proof.
  intros H1 H2. unfold expected_spaces. rewrite H1, H2.
  unfold depth. cbn [filter snd length]. lia.
Qed.

Lemma depth_broken k rs : depth ((k, true) :: rs) = S (depth rs).
Proof. reflexivity. Qed.

Lemma depth_unbroken k rs : depth ((k, false) :: rs) = depth rs.
Proof. reflexivity. Qed.

(** a line break, the indentation, a closer of a broken scope *)
Lemma disc_nl_closer c k rs0 i T :
  (c =? c_nl) = false -> (c =? c_space) = false -> (c =? c_lbrace) = false ->
  opener c = None -> closer c = Some k ->
  i = Z.of_nat (depth rs0) ->
  disc ((k, true) :: rs0) (nl_indent i ++ c :: T) = disc rs0 T.
Proof.
  intros Hnl Hsp Hlb Ho Hc ->.
  unfold nl_indent, indentation. cbn [app].
  rewrite (disc_nl _ _ (4 * Z.to_nat (Z.of_nat (depth rs0)) + 0)%nat (c :: T)).
  2:{ apply count_spaces_repeat. apply count_spaces_nonspace; exact Hsp. }
  cbn [hd_error].
  rewrite (expected_closer_broken rs0 k c k Hlb Hc).
  rewrite Nat2Z.id.
  replace (4 * depth rs0 + 0)%nat with (4 * depth rs0)%nat by lia.
  rewrite Nat.eqb_refl. cbn [andb].
  apply disc_closer; assumption.
Qed.

(** * the state relation *)

Inductive rel : Z -> list scope -> list scope -> list (bkind * bool) -> Prop :=
| rel_nil : rel 0 [] [] []
| rel_brace i t a rs : rel i t a rs -> rel (i + 1) t a ((KBrace, true) :: rs)
| rel_paren_big i t a rs : rel i t a rs -> rel (i + 1) (Big :: t) a ((KParen, true) :: rs)
| rel_paren_small i t a rs : rel i t a rs -> rel i (Small :: t) a ((KParen, false) :: rs)
| rel_angle_big i t a rs : rel i t a rs -> rel (i + 1) t (Big :: a) ((KAngle, true) :: rs)
| rel_angle_small i t a rs : rel i t a rs -> rel i t (Small :: a) ((KAngle, false) :: rs).

Definition Rel (st : fstate) (rs : list (bkind * bool)) : Prop :=
  rel (indent st) (tuples st) (angles st) rs.

Lemma rel_depth i t a rs : rel i t a rs -> i = Z.of_nat (depth rs).
Proof.
  induction 1 as [|i t a rs H IH|i t a rs H IH|i t a rs H IH|i t a rs H IH|i t a rs H IH];
    rewrite ?depth_broken, ?depth_unbroken; try rewrite Nat2Z.inj_succ; try lia.
  reflexivity.
Qed.

Lemma rel_counts i t a rs :
  rel i t a rs ->
  length t = count_kind KParen (map fst rs) /\
  length a = count_kind KAngle (map fst rs) /\
  i = Z.of_nat (count_kind KBrace (map fst rs) + count_big t + count_big a).
Proof.
  unfold count_kind, count_big.
  induction 1 as [|i t a rs H (IH1 & IH2 & IH3)|i t a rs H (IH1 & IH2 & IH3)
                  |i t a rs H (IH1 & IH2 & IH3)|i t a rs H (IH1 & IH2 & IH3)
                  |i t a rs H (IH1 & IH2 & IH3)];
    cbn [map fst filter bkind_eqb is_big length]; repeat split; try lia.
Qed.

Lemma rel_inv_nil i t a : rel i t a [] -> i = 0%Z /\ t = [] /\ a = [].
Proof. inversion 1; auto. Qed.

Lemma rel_inv_brace i t a b rs0 :
  rel i t a ((KBrace, b) :: rs0) -> b = true /\ rel (i - 1) t a rs0.
Proof.
  inversion 1 as [|i0 t0 a0 rs1 H0| | | |]; subst. split; [reflexivity|].
  replace (i0 + 1 - 1)%Z with i0 by lia. exact H0.
Qed.

Lemma rel_inv_paren i t a b rs0 :
  rel i t a ((KParen, b) :: rs0) ->
  (b = true /\ exists t0, t = Big :: t0 /\ rel (i - 1) t0 a rs0) \/
  (b = false /\ exists t0, t = Small :: t0 /\ rel i t0 a rs0).
Proof.
  inversion 1 as [| |i0 t0 a0 rs1 H0|i0 t0 a0 rs1 H0| |]; subst.
  - left. split; [reflexivity|]. exists t0. split; [reflexivity|].
    replace (i0 + 1 - 1)%Z with i0 by lia. exact H0.
  - right. split; [reflexivity|]. exists t0. split; [reflexivity|exact H0].
Qed.

Lemma rel_inv_angle i t a b rs0 :
  rel i t a ((KAngle, b) :: rs0) ->
  (b = true /\ exists a0, a = Big :: a0 /\ rel (i - 1) t a0 rs0) \/
  (b = false /\ exists a0, a = Small :: a0 /\ rel i t a0 rs0).
Proof.
  inversion 1 as [| | | |i0 t0 a0 rs1 H0|i0 t0 a0 rs1 H0]; subst.
  - left. split; [reflexivity|]. exists a0. split; [reflexivity|].
    replace (i0 + 1 - 1)%Z with i0 by lia. exact H0.
  - right. split; [reflexivity|]. exists a0. split; [reflexivity|exact H0].
Qed.

(** * the formatter, one character *)

Section WithOracle.
  Variable O : Type.
  Variable decide : O -> N -> N -> list N -> bool * O.

  Lemma format_from_cons st o ch rest :
    format_from O decide st o (ch :: rest) =
    let '(chunk, st', o') := step O decide st o ch rest in
    chunk ++ format_from O decide st' o' rest.
  Proof. reflexivity. Qed.

  Lemma step_lbrace st o rest :
    step O decide st o c_lbrace rest =
    (c_space :: c_lbrace :: nl_indent (indent st + 1),
     mk_fstate (indent st + 1) (tuples st) (angles st), o).
  Proof. reflexivity. Qed.

  Lemma step_rbrace st o rest :
    step O decide st o c_rbrace rest =
    (nl_indent (indent st - 1) ++ [c_rbrace],
     mk_fstate (indent st - 1) (tuples st) (angles st), o).
  Proof. reflexivity. Qed.

  Lemma step_comma st o rest :
    step O decide st o c_comma rest =
    match tuples st with
    | Small :: _ => ([c_comma; c_space], st, o)
    | _ => (c_comma :: nl_indent (indent st), st, o)
    end.
  Proof. reflexivity. Qed.

  Lemma step_lparen st o rest :
    step O decide st o c_lparen rest =
    let '(small, o') := decide o c_lparen c_rparen rest in
    if small then ([c_lparen], mk_fstate (indent st) (Small :: tuples st) (angles st), o')
    else (c_lparen :: nl_indent (indent st + 1),
          mk_fstate (indent st + 1) (Big :: tuples st) (angles st), o').
  Proof. reflexivity. Qed.

  Lemma step_rparen st o rest :
    step O decide st o c_rparen rest =
    match tuples st with
    | Big :: t => (nl_indent (indent st - 1) ++ [c_rparen],
                   mk_fstate (indent st - 1) t (angles st), o)
    | Small :: t => ([c_rparen], mk_fstate (indent st) t (angles st), o)
    | [] => ([c_rparen], st, o)
    end.
  Proof. reflexivity. Qed.

  Lemma step_langle st o rest :
    step O decide st o c_langle rest =
    let '(small, o') := decide o c_langle c_rangle rest in
    if small then ([c_langle], mk_fstate (indent st) (tuples st) (Small :: angles st), o')
    else (c_langle :: nl_indent (indent st + 1),
          mk_fstate (indent st + 1) (tuples st) (Big :: angles st), o').
  Proof. reflexivity. Qed.

  Lemma step_rangle st o rest :
    step O decide st o c_rangle rest =
    match angles st with
    | Big :: t => (nl_indent (indent st - 1) ++ [c_rangle],
                   mk_fstate (indent st - 1) (tuples st) t, o)
    | Small :: t => ([c_rangle], mk_fstate (indent st) (tuples st) t, o)
    | [] => ([c_rangle], st, o)
    end.
  Proof. reflexivity. Qed.

  Lemma step_other st o ch rest : other ch -> step O decide st o ch rest = ([ch], st, o).
  Proof.
    intros (H1 & H2 & H3 & H4 & H5 & H6 & H7). unfold step.
    rewrite H1, H2, H3, H4, H5, H6, H7. reflexivity.
  Qed.

  (** ** how the text produced from a related state begins *)
  Inductive head_form (rs : list (bkind * bool)) : list N -> Prop :=
  | hf_nil : head_form rs []
  | hf_lbrace X : head_form rs (c_space :: c_lbrace :: X)
  | hf_nl X k rs0 : rs = (k, true) :: rs0 -> head_form rs (c_nl :: X)
  | hf_plain c X :
      (c =? c_space) = false -> (c =? c_nl) = false -> (c =? c_lbrace) = false ->
      closer c = None -> head_form rs (c :: X)
  | hf_closer c X k rs0 :
      (c =? c_space) = false -> (c =? c_nl) = false -> (c =? c_lbrace) = false ->
      closer c = Some k -> rs = (k, false) :: rs0 -> head_form rs (c :: X).

  Lemma fmt_head s st o rs :
    Rel st rs -> nested_from (map fst rs) s = true -> ws_free s = true ->
    head_form rs (format_from O decide st o s).
  Proof.
    intros Hrel Hn Hw.
    destruct s as [|ch rest]; [constructor|].
    apply ws_free_cons in Hw as (Hsp & Hnl & Hw).
    rewrite format_from_cons.
    destruct (classify ch) as [->|[->|[->|[->|[->|[->|[->|Hoth]]]]]]].
    - rewrite step_lbrace. cbv beta iota. cbn [app]. constructor.
    - apply nested_close with (k := KBrace) in Hn as (bs0 & Hbs & Hn); [|reflexivity..].
      apply map_fst_cons in Hbs as (b & rs0 & -> & Hbs).
      apply rel_inv_brace in Hrel as (-> & Hrel).
      rewrite step_rbrace. cbv beta iota. unfold nl_indent. cbn [app].
      apply hf_nl with KBrace rs0. reflexivity.
    - rewrite step_comma.
      destruct (tuples st) as [|[] ?]; cbv beta iota; cbn [app]; apply hf_plain; reflexivity.
    - rewrite step_lparen.
      destruct (decide o c_lparen c_rparen rest) as [[|] o']; cbv beta iota; cbn [app];
        apply hf_plain; reflexivity.
    - apply nested_close with (k := KParen) in Hn as (bs0 & Hbs & Hn); [|reflexivity..].
      apply map_fst_cons in Hbs as (b & rs0 & -> & Hbs).
      rewrite step_rparen.
      apply rel_inv_paren in Hrel as [(-> & t0 & -> & Hrel)|(-> & t0 & -> & Hrel)];
        cbv beta iota; unfold nl_indent; cbn [app].
      + apply hf_nl with KParen rs0. reflexivity.
      + apply hf_closer with KParen rs0; reflexivity.
    - rewrite step_langle.
      destruct (decide o c_langle c_rangle rest) as [[|] o']; cbv beta iota; cbn [app];
        apply hf_plain; reflexivity.
    - apply nested_close with (k := KAngle) in Hn as (bs0 & Hbs & Hn); [|reflexivity..].
      apply map_fst_cons in Hbs as (b & rs0 & -> & Hbs).
      rewrite step_rangle.
      apply rel_inv_angle in Hrel as [(-> & t0 & -> & Hrel)|(-> & t0 & -> & Hrel)];
        cbv beta iota; unfold nl_indent; cbn [app].
      + apply hf_nl with KAngle rs0. reflexivity.
      + apply hf_closer with KAngle rs0; reflexivity.
    - rewrite (step_other _ _ _ _ Hoth). cbv beta iota. cbn [app].
      apply hf_plain; auto using other_closer. apply Hoth.
  Qed.

  (** look-ahead 1: the spaces counted after a line break *)
  Lemma head_count rs T k r :
    head_form rs T -> count_spaces T = (k, r) ->
    (4 * depth rs + k)%nat = expected_spaces rs (hd_error r).
  Proof.
    intros [|X|X kb rs0 Hrs|c X Hsp Hnl Hlb Hc|c X kb rs0 Hsp Hnl Hlb Hc Hrs] E.
    - cbn [count_spaces] in E. injection E as <- <-. cbn [hd_error].
      rewrite expected_none. lia.
    - rewrite count_spaces_space, count_spaces_nonspace in E by reflexivity.
      injection E as <- <-. cbn [hd_error]. rewrite expected_lbrace. lia.
    - rewrite count_spaces_nonspace in E by reflexivity.
      injection E as <- <-. cbn [hd_error]. rewrite expected_plain by reflexivity. lia.
    - rewrite count_spaces_nonspace in E by exact Hsp.
      injection E as <- <-. cbn [hd_error]. rewrite expected_plain by assumption. lia.
    - rewrite count_spaces_nonspace in E by exact Hsp.
      injection E as <- <-. cbn [hd_error]. subst rs.
      rewrite (expected_closer_unbroken rs0 kb c kb Hlb Hc). lia.
  Qed.

  (** look-ahead 2: an unbroken scope's opener is not followed by a line break *)
  Lemma head_starts_nl k rs0 T : head_form ((k, false) :: rs0) T -> starts_nl T = false.
  Proof.
    intros [|X|X kb rs1 Hrs|c X Hsp Hnl Hlb Hc|c X kb rs1 Hsp Hnl Hlb Hc Hrs]; cbn [starts_nl];
      try reflexivity; try assumption.
    discriminate Hrs.
  Qed.

  (** a line break followed by the indentation of a related state *)
  Lemma nl_ok s st o rs :
    Rel st rs -> nested_from (map fst rs) s = true -> ws_free s = true ->
    disc rs (format_from O decide st o s) = true ->
    disc rs (nl_indent (indent st) ++ format_from O decide st o s) = true.
  Proof.
    intros Hrel Hn Hw Hd.
    pose proof (fmt_head s st o rs Hrel Hn Hw) as Hh.
    destruct (count_spaces (format_from O decide st o s)) as [k r] eqn:E.
    unfold nl_indent, indentation. cbn [app].
    rewrite (disc_nl _ _ _ _ (count_spaces_repeat _ _ _ _ E)).
    rewrite <- (head_count _ _ _ _ Hh E).
    rewrite (rel_depth _ _ _ _ Hrel), Nat2Z.id, Nat.eqb_refl. cbn [andb].
    rewrite <- (disc_spaces _ rs _ _ E). exact Hd.
  Qed.

  (** ** the reader accepts every text produced from a related state *)
  Lemma discipline_main : forall s st o rs,
    Rel st rs -> nested_from (map fst rs) s = true -> ws_free s = true ->
    disc rs (format_from O decide st o s) = true.
  Proof.
    induction s as [|ch rest IH]; intros st o rs Hrel Hn Hw.
    - destruct rs; [reflexivity|discriminate Hn].
    - pose proof Hw as Hw0.
      apply ws_free_cons in Hw as (Hsp & Hnl & Hw).
      rewrite format_from_cons.
      destruct (classify ch) as [->|[->|[->|[->|[->|[->|[->|Hoth]]]]]]].
      + (* { *)
        rewrite step_lbrace. cbv beta iota. cbn [app].
        rewrite disc_space, disc_lbrace.
        rewrite (nested_open _ KBrace) in Hn by reflexivity.
        assert (Hrel' : Rel (mk_fstate (indent st + 1) (tuples st) (angles st))
                            ((KBrace, true) :: rs)) by (apply rel_brace; exact Hrel).
        apply (nl_ok rest (mk_fstate (indent st + 1) (tuples st) (angles st)) o
                     ((KBrace, true) :: rs)); auto.
      + (* } *)
        apply nested_close with (k := KBrace) in Hn as (bs0 & Hbs & Hn); [|reflexivity..].
        apply map_fst_cons in Hbs as (b & rs0 & -> & <-).
        apply rel_inv_brace in Hrel as (-> & Hrel).
        rewrite step_rbrace. cbv beta iota. rewrite <- app_assoc. cbn [app].
        rewrite disc_nl_closer; try reflexivity.
        * apply IH; auto.
        * apply (rel_depth _ _ _ _ Hrel).
      + (* , *)
        rewrite step_comma.
        assert (Hnest : nested_from (map fst rs) rest = true)
          by (rewrite nested_other in Hn by reflexivity; exact Hn).
        destruct (tuples st) as [|[] ?] eqn:Et; cbv beta iota; cbn [app];
          rewrite disc_comma.
        * apply nl_ok; auto.
        * apply nl_ok; auto.
        * rewrite disc_space. apply IH; auto.
      + (* ( *)
        rewrite step_lparen.
        rewrite (nested_open _ KParen) in Hn by reflexivity.
        destruct (decide o c_lparen c_rparen rest) as [[|] o']; cbv beta iota; cbn [app];
          rewrite disc_lparen.
        * assert (Hrel' : Rel (mk_fstate (indent st) (Small :: tuples st) (angles st))
                              ((KParen, false) :: rs)) by (apply rel_paren_small; exact Hrel).
          rewrite (head_starts_nl KParen rs).
          -- apply IH; auto.
          -- apply fmt_head; auto.
        * assert (Hrel' : Rel (mk_fstate (indent st + 1) (Big :: tuples st) (angles st))
                              ((KParen, true) :: rs)) by (apply rel_paren_big; exact Hrel).
          unfold nl_indent at 1. cbn [app starts_nl]. change (c_nl =? c_nl) with true.
          apply (nl_ok rest (mk_fstate (indent st + 1) (Big :: tuples st) (angles st)) o'
                       ((KParen, true) :: rs)); auto.
      + (* ) *)
        apply nested_close with (k := KParen) in Hn as (bs0 & Hbs & Hn); [|reflexivity..].
        apply map_fst_cons in Hbs as (b & rs0 & -> & <-).
        rewrite step_rparen.
        apply rel_inv_paren in Hrel as [(-> & t0 & Et & Hrel)|(-> & t0 & Et & Hrel)];
          rewrite Et; cbv beta iota.
        * rewrite <- app_assoc. cbn [app].
          rewrite disc_nl_closer; try reflexivity.
          -- apply IH; auto.
          -- apply (rel_depth _ _ _ _ Hrel).
        * cbn [app]. rewrite disc_closer by reflexivity. apply IH; auto.
      + (* < *)
        rewrite step_langle.
        rewrite (nested_open _ KAngle) in Hn by reflexivity.
        destruct (decide o c_langle c_rangle rest) as [[|] o']; cbv beta iota; cbn [app];
          rewrite disc_langle.
        * assert (Hrel' : Rel (mk_fstate (indent st) (tuples st) (Small :: angles st))
                              ((KAngle, false) :: rs)) by (apply rel_angle_small; exact Hrel).
          rewrite (head_starts_nl KAngle rs).
          -- apply IH; auto.
          -- apply fmt_head; auto.
        * assert (Hrel' : Rel (mk_fstate (indent st + 1) (tuples st) (Big :: angles st))
                              ((KAngle, true) :: rs)) by (apply rel_angle_big; exact Hrel).
          unfold nl_indent at 1. cbn [app starts_nl]. change (c_nl =? c_nl) with true.
          apply (nl_ok rest (mk_fstate (indent st + 1) (tuples st) (Big :: angles st)) o'
                       ((KAngle, true) :: rs)); auto.
      + (* > *)
        apply nested_close with (k := KAngle) in Hn as (bs0 & Hbs & Hn); [|reflexivity..].
        apply map_fst_cons in Hbs as (b & rs0 & -> & <-).
        rewrite step_rangle.
        apply rel_inv_angle in Hrel as [(-> & a0 & Ea & Hrel)|(-> & a0 & Ea & Hrel)];
          rewrite Ea; cbv beta iota.
        * rewrite <- app_assoc. cbn [app].
          rewrite disc_nl_closer; try reflexivity.
          -- apply IH; auto.
          -- apply (rel_depth _ _ _ _ Hrel).
        * cbn [app]. rewrite disc_closer by reflexivity. apply IH; auto.
      + (* any other character *)
        rewrite (step_other _ _ _ _ Hoth). cbv beta iota. cbn [app].
        rewrite nested_other in Hn by auto using other_opener, other_closer.
        rewrite disc_skip by auto using other_opener, other_closer.
        apply IH; auto.
  Qed.

  Theorem format_with_discipline o input :
    nestedb input = true -> ws_free input = true ->
    disciplineb (format_with O decide o input) = true.
  Proof.
    intros Hn Hw. rewrite disciplineb_disc. unfold format_with.
    apply discipline_main; auto. apply rel_nil.
  Qed.
End WithOracle.

(** * the indent invariant *)

Lemma nested_stack_after : forall s bs,
  nested_from bs s = true <-> stack_after bs s = Some [].
Proof.
  induction s as [|c s IH]; intro bs; cbn [nested_from stack_after].
  - destruct bs; split; intro H; try reflexivity; discriminate H.
  - destruct (opener c) as [k|]; [apply IH|].
    destruct (closer c) as [k|]; [|apply IH].
    destruct bs as [|k' bs0]; [split; discriminate|].
    destruct (bkind_eqb k k'); cbn [andb]; [apply IH|split; discriminate].
Qed.

Section Invariant.
  Variable O : Type.
  Variable decide : O -> N -> N -> list N -> bool * O.

  (** one step keeps the relation; [rs1] is the reader stack after [ch] *)
  Lemma step_rel st o ch rest rs :
    Rel st rs -> nested_from (map fst rs) (ch :: rest) = true ->
    exists rs1,
      Rel (snd (fst (step O decide st o ch rest))) rs1 /\
      nested_from (map fst rs1) rest = true /\
      (forall l, stack_after (map fst rs) (ch :: l) = stack_after (map fst rs1) l).
  Proof.
    intros Hrel Hn.
    destruct (classify ch) as [->|[->|[->|[->|[->|[->|[->|Hoth]]]]]]].
    - rewrite step_lbrace. cbn [fst snd].
      rewrite (nested_open _ KBrace) in Hn by reflexivity.
      exists ((KBrace, true) :: rs). split; [apply rel_brace; exact Hrel|].
      split; [exact Hn|]. intro l. apply stack_after_open. reflexivity.
    - apply nested_close with (k := KBrace) in Hn as (bs0 & Hbs & Hn); [|reflexivity..].
      apply map_fst_cons in Hbs as (b & rs0 & -> & <-).
      apply rel_inv_brace in Hrel as (-> & Hrel).
      rewrite step_rbrace. cbn [fst snd].
      exists rs0. split; [exact Hrel|]. split; [exact Hn|].
      intro l. cbn [map fst]. apply stack_after_close; reflexivity.
    - rewrite nested_other in Hn by reflexivity.
      exists rs. split; [|split; [exact Hn|intro l; apply stack_after_other; reflexivity]].
      rewrite step_comma. destruct (tuples st) as [|[] ?]; exact Hrel.
    - rewrite (nested_open _ KParen) in Hn by reflexivity.
      rewrite step_lparen.
      destruct (decide o c_lparen c_rparen rest) as [[|] o']; cbn [fst snd].
      + exists ((KParen, false) :: rs). split; [apply rel_paren_small; exact Hrel|].
        split; [exact Hn|]. intro l. apply stack_after_open. reflexivity.
      + exists ((KParen, true) :: rs). split; [apply rel_paren_big; exact Hrel|].
        split; [exact Hn|]. intro l. apply stack_after_open. reflexivity.
    - apply nested_close with (k := KParen) in Hn as (bs0 & Hbs & Hn); [|reflexivity..].
      apply map_fst_cons in Hbs as (b & rs0 & -> & <-).
      rewrite step_rparen.
      exists rs0.
      apply rel_inv_paren in Hrel as [(-> & t0 & Et & Hrel)|(-> & t0 & Et & Hrel)];
        rewrite Et; cbn [fst snd]; (split; [exact Hrel|]); (split; [exact Hn|]);
        intro l; cbn [map fst]; apply stack_after_close; reflexivity.
    - rewrite (nested_open _ KAngle) in Hn by reflexivity.
      rewrite step_langle.
      destruct (decide o c_langle c_rangle rest) as [[|] o']; cbn [fst snd].
      + exists ((KAngle, false) :: rs). split; [apply rel_angle_small; exact Hrel|].
        split; [exact Hn|]. intro l. apply stack_after_open. reflexivity.
      + exists ((KAngle, true) :: rs). split; [apply rel_angle_big; exact Hrel|].
        split; [exact Hn|]. intro l. apply stack_after_open. reflexivity.
    - apply nested_close with (k := KAngle) in Hn as (bs0 & Hbs & Hn); [|reflexivity..].
      apply map_fst_cons in Hbs as (b & rs0 & -> & <-).
      rewrite step_rangle.
      exists rs0.
      apply rel_inv_angle in Hrel as [(-> & a0 & Ea & Hrel)|(-> & a0 & Ea & Hrel)];
        rewrite Ea; cbn [fst snd]; (split; [exact Hrel|]); (split; [exact Hn|]);
        intro l; cbn [map fst]; apply stack_after_close; reflexivity.
    - rewrite nested_other in Hn by auto using other_opener, other_closer.
      rewrite (step_other _ _ _ _ _ _ Hoth). cbn [fst snd].
      exists rs. split; [exact Hrel|]. split; [exact Hn|].
      intro l. apply stack_after_other; auto using other_opener, other_closer.
  Qed.

  Lemma run_rel : forall n s st o rs,
    Rel st rs -> nested_from (map fst rs) s = true ->
    exists rs', stack_after (map fst rs) (firstn n s) = Some (map fst rs') /\
                Rel (run_n O decide n st o s) rs'.
  Proof.
    induction n as [|n IH]; intros s st o rs Hrel Hn.
    - exists rs. split; [reflexivity|exact Hrel].
    - destruct s as [|ch rest]; [exists rs; split; [reflexivity|exact Hrel]|].
      destruct (step_rel st o ch rest rs Hrel Hn) as (rs1 & Hrel1 & Hn1 & Hst).
      cbn [run_n firstn]. rewrite Hst.
      destruct (step O decide st o ch rest) as [[chunk st1] o1]. cbn [fst snd] in Hrel1.
      apply IH; assumption.
  Qed.

  Lemma final_rel : forall s st o rs,
    Rel st rs -> nested_from (map fst rs) s = true ->
    Rel (final_state O decide st o s) [].
  Proof.
    induction s as [|ch rest IH]; intros st o rs Hrel Hn.
    - destruct rs; [exact Hrel|discriminate Hn].
    - destruct (step_rel st o ch rest rs Hrel Hn) as (rs1 & Hrel1 & Hn1 & _).
      cbn [final_state].
      destruct (step O decide st o ch rest) as [[chunk st1] o1]. cbn [fst snd] in Hrel1.
      apply IH with rs1; assumption.
  Qed.

  Theorem indent_invariant o input :
    nestedb input = true ->
    (forall n : nat, exists bs,
        stack_after [] (firstn n input) = Some bs /\
        let st := run_n O decide n init_fstate o input in
        length (tuples st) = count_kind KParen bs /\
        length (angles st) = count_kind KAngle bs /\
        indent st = Z.of_nat (count_kind KBrace bs + count_big (tuples st) + count_big (angles st)) /\
        (0 <= indent st)%Z) /\
    (let st := final_state O decide init_fstate o input in
     indent st = 0%Z /\ tuples st = [] /\ angles st = []).
  Proof.
    intro Hn. split.
    - intro n.
      destruct (run_rel n input init_fstate o [] rel_nil Hn) as (rs' & Hst & Hrel).
      exists (map fst rs'). split; [exact Hst|].
      destruct (rel_counts _ _ _ _ Hrel) as (H1 & H2 & H3).
      cbv zeta. repeat split; try assumption. rewrite H3. lia.
    - pose proof (final_rel input init_fstate o [] rel_nil Hn) as Hrel.
      apply rel_inv_nil in Hrel. exact Hrel.
  Qed.
End Invariant.

(** * the implementation's look-ahead [decide_impl]

    [scope_scan] answers "small" exactly when the text splits as
    [pre ++ close :: post] where [pre] contains no opening brace, the balance
    (1 + openers - closers) stays positive on every prefix of [pre] and is 1
    after [pre]: [close] is the closer matching the opener just read, and no
    brace occurs before it.  For [decide_impl], [pre] is shorter than 32. *)
Section Scan.
  Variables open close : N.

  Lemma scope_scan_cons b c l :
    scope_scan open close b (c :: l) =
    if (c =? close) && (bal_step open close b c =? 0)%Z then true
    else if c =? c_lbrace then false
    else scope_scan open close (bal_step open close b c) l.
  Proof.
    cbn [scope_scan]. unfold bal_step.
    destruct (c =? close); cbn [andb]; [|reflexivity].
    destruct (Z.eqb _ _); reflexivity.
  Qed.

  Lemma bal_cons b c l : bal open close b (c :: l) = bal open close (bal_step open close b c) l.
  Proof. reflexivity. Qed.

  Lemma bal_step_ge b c : (b - 1 <= bal_step open close b c)%Z.
  Proof. unfold bal_step. destruct (c =? open), (c =? close); lia. Qed.

  Lemma scope_scan_sound : forall l b,
    (1 <= b)%Z -> scope_scan open close b l = true ->
    exists pre post, small_split open close b l pre post.
  Proof.
    induction l as [|c l IH]; intros b Hb H; [discriminate H|].
    rewrite scope_scan_cons in H.
    pose proof (bal_step_ge b c) as Hge.
    destruct ((c =? close) && (bal_step open close b c =? 0)%Z) eqn:Ehit.
    - apply andb_prop in Ehit as [Ec Ez].
      apply N.eqb_eq in Ec. apply Z.eqb_eq in Ez. subst c.
      exists [], l. repeat split.
      + intros [].
      + intros k Hk. destruct k; cbn [firstn]; exact Hb.
      + unfold bal_step in Ez. rewrite N.eqb_refl in Ez.
        cbn [bal fold_left]. destruct (close =? open); lia.
    - destruct (N.eqb_spec c c_lbrace) as [Elb|Elb]; [discriminate H|].
      assert (Hb' : (1 <= bal_step open close b c)%Z).
      { apply andb_false_iff in Ehit as [Ec|Ez].
        - unfold bal_step in *. rewrite Ec. destruct (c =? open); lia.
        - apply Z.eqb_neq in Ez. unfold bal_step in *.
          destruct (c =? open), (c =? close); lia. }
      destruct (IH _ Hb' H) as (pre & post & -> & Hno & Hpos & Hone).
      exists (c :: pre), post. repeat split.
      + intros [Hin|Hin]; [congruence|contradiction].
      + intros k Hk. destruct k as [|k]; cbn [firstn]; [exact Hb|].
        rewrite bal_cons. apply Hpos. cbn [length] in Hk. lia.
      + rewrite bal_cons. exact Hone.
  Qed.

  (** (for [open = close] the balance never changes and the answer is always
      "big"; the two call sites use '(' ')' and '<' '>') *)
  Lemma scope_scan_complete : forall pre b post,
    close <> open ->
    ~ In c_lbrace pre ->
    (forall k, (k <= length pre)%nat -> (1 <= bal open close b (firstn k pre))%Z) ->
    bal open close b pre = 1%Z ->
    scope_scan open close b (pre ++ close :: post) = true.
  Proof.
    intros pre b post Hoc. revert b post.
    induction pre as [|c pre IH]; intros b post Hno Hpos Hone; cbn [app];
      rewrite scope_scan_cons.
    - cbn [bal fold_left] in Hone. subst b.
      apply N.eqb_neq in Hoc.
      unfold bal_step. rewrite N.eqb_refl, Hoc. reflexivity.
    - rewrite bal_cons in Hone.
      assert (Hstep : (1 <= bal_step open close b c)%Z).
      { specialize (Hpos 1%nat). cbn [length firstn] in Hpos.
        rewrite bal_cons in Hpos. apply Hpos. lia. }
      replace ((c =? close) && (bal_step open close b c =? 0)%Z) with false.
      2:{ symmetry. apply andb_false_iff. right. apply Z.eqb_neq. lia. }
      destruct (N.eqb_spec c c_lbrace) as [Elb|Elb].
      + exfalso. apply Hno. left. exact Elb.
      + apply IH.
        * intro Hin. apply Hno. right. exact Hin.
        * intros k Hk. specialize (Hpos (S k)). cbn [length firstn] in Hpos.
          rewrite bal_cons in Hpos. apply Hpos. lia.
        * exact Hone.
  Qed.
End Scan.

Theorem decide_impl_small_iff u open close rest :
  close <> open ->
  (fst (decide_impl u open close rest) = true <->
   exists pre post,
     (length pre < small_scope_max_tokens)%nat /\ small_split open close 1 rest pre post).
Proof.
  intro Hoc. unfold decide_impl. cbn [fst]. split.
  - intro H. apply scope_scan_sound in H as (pre & post & Hsplit & Hno & Hpos & Hone); [|lia].
    exists pre, (post ++ skipn small_scope_max_tokens rest).
    split.
    + pose proof (firstn_le_length small_scope_max_tokens rest) as Hle.
      rewrite Hsplit, app_length in Hle. cbn [length] in Hle. lia.
    + split; [|auto].
      rewrite <- (firstn_skipn small_scope_max_tokens rest) at 1.
      rewrite Hsplit, <- app_assoc. reflexivity.
  - intros (pre & post & Hlen & -> & Hno & Hpos & Hone).
    rewrite firstn_app.
    rewrite firstn_all2 by lia.
    destruct (small_scope_max_tokens - length pre)%nat as [|m] eqn:Em; [lia|].
    cbn [firstn]. apply scope_scan_complete; assumption.
Qed.

(** the two call sites *)
Corollary decide_impl_paren_small u rest :
  fst (decide_impl u c_lparen c_rparen rest) = true ->
  exists pre post, rest = pre ++ c_rparen :: post /\
                   (length pre < small_scope_max_tokens)%nat /\ ~ In c_lbrace pre.
Proof.
  intro H. apply decide_impl_small_iff in H as (pre & post & Hlen & Hs & Hno & _); [|discriminate].
  eauto.
Qed.

Corollary decide_impl_angle_small u rest :
  fst (decide_impl u c_langle c_rangle rest) = true ->
  exists pre post, rest = pre ++ c_rangle :: post /\
                   (length pre < small_scope_max_tokens)%nat /\ ~ In c_lbrace pre.
Proof.
  intro H. apply decide_impl_small_iff in H as (pre & post & Hlen & Hs & Hno & _); [|discriminate].
  eauto.
Qed.

(** * the reader's "broken" flags are the oracle's "big" answers *)
Section Broken.
  Variable O : Type.
  Variable decide : O -> N -> N -> list N -> bool * O.

  Lemma read_broken_skip c l :
    (c =? c_lparen) = false -> (c =? c_langle) = false ->
    read_broken (c :: l) = read_broken l.
  Proof. intros H1 H2. cbn [read_broken]. rewrite H1, H2. reflexivity. Qed.

  Lemma read_broken_open c l :
    ((c =? c_lparen) || (c =? c_langle)) = true ->
    read_broken (c :: l) = starts_nl l :: read_broken l.
  Proof. intro H. cbn [read_broken]. rewrite H. reflexivity. Qed.

  Lemma read_broken_nl_indent i l : read_broken (nl_indent i ++ l) = read_broken l.
  Proof.
    unfold nl_indent, indentation. cbn [app].
    rewrite read_broken_skip by reflexivity.
    induction (4 * Z.to_nat i)%nat as [|n IH]; cbn [repeat app]; [reflexivity|].
    rewrite read_broken_skip by reflexivity. exact IH.
  Qed.

  Lemma big_decisions_skip o ch rest :
    (ch =? c_lparen) = false -> (ch =? c_langle) = false ->
    big_decisions O decide o (ch :: rest) = big_decisions O decide o rest.
  Proof. intros H1 H2. cbn [big_decisions]. rewrite H1, H2. reflexivity. Qed.

  Lemma big_decisions_lparen o rest :
    big_decisions O decide o (c_lparen :: rest) =
    let '(small, o') := decide o c_lparen c_rparen rest in
    negb small :: big_decisions O decide o' rest.
  Proof. reflexivity. Qed.

  Lemma big_decisions_langle o rest :
    big_decisions O decide o (c_langle :: rest) =
    let '(small, o') := decide o c_langle c_rangle rest in
    negb small :: big_decisions O decide o' rest.
  Proof. reflexivity. Qed.

  Lemma broken_main : forall s st o rs,
    Rel st rs -> nested_from (map fst rs) s = true -> ws_free s = true ->
    read_broken (format_from O decide st o s) = big_decisions O decide o s.
  Proof.
    induction s as [|ch rest IH]; intros st o rs Hrel Hn Hw; [reflexivity|].
    apply ws_free_cons in Hw as (Hsp & Hnl & Hw).
    rewrite format_from_cons.
    destruct (classify ch) as [->|[->|[->|[->|[->|[->|[->|Hoth]]]]]]].
    - rewrite step_lbrace. cbv beta iota. cbn [app].
      rewrite !read_broken_skip, read_broken_nl_indent, big_decisions_skip by reflexivity.
      rewrite (nested_open _ KBrace) in Hn by reflexivity.
      apply IH with ((KBrace, true) :: rs); auto. apply rel_brace. exact Hrel.
    - apply nested_close with (k := KBrace) in Hn as (bs0 & Hbs & Hn); [|reflexivity..].
      apply map_fst_cons in Hbs as (b & rs0 & -> & <-).
      apply rel_inv_brace in Hrel as (-> & Hrel).
      rewrite step_rbrace. cbv beta iota. rewrite <- app_assoc. cbn [app].
      rewrite read_broken_nl_indent, read_broken_skip, big_decisions_skip by reflexivity.
      apply IH with rs0; auto.
    - rewrite nested_other in Hn by reflexivity.
      rewrite step_comma, big_decisions_skip by reflexivity.
      destruct (tuples st) as [|[] ?] eqn:Et; cbv beta iota; cbn [app];
        rewrite ?read_broken_nl_indent, !read_broken_skip, ?read_broken_nl_indent by reflexivity;
        apply IH with rs; auto.
    - rewrite (nested_open _ KParen) in Hn by reflexivity.
      rewrite step_lparen, big_decisions_lparen.
      destruct (decide o c_lparen c_rparen rest) as [[|] o']; cbv beta iota; cbn [app negb];
        rewrite read_broken_open by reflexivity.
      + assert (Hrel' : Rel (mk_fstate (indent st) (Small :: tuples st) (angles st))
                            ((KParen, false) :: rs)) by (apply rel_paren_small; exact Hrel).
        rewrite (head_starts_nl KParen rs) by (apply fmt_head; auto).
        f_equal. apply IH with ((KParen, false) :: rs); auto.
      + assert (Hrel' : Rel (mk_fstate (indent st + 1) (Big :: tuples st) (angles st))
                            ((KParen, true) :: rs)) by (apply rel_paren_big; exact Hrel).
        rewrite read_broken_nl_indent.
        f_equal. apply IH with ((KParen, true) :: rs); auto.
    - apply nested_close with (k := KParen) in Hn as (bs0 & Hbs & Hn); [|reflexivity..].
      apply map_fst_cons in Hbs as (b & rs0 & -> & <-).
      rewrite step_rparen, big_decisions_skip by reflexivity.
      apply rel_inv_paren in Hrel as [(-> & t0 & Et & Hrel)|(-> & t0 & Et & Hrel)];
        rewrite Et; cbv beta iota; rewrite <- ?app_assoc; cbn [app];
        rewrite ?read_broken_nl_indent, read_broken_skip by reflexivity;
        apply IH with rs0; auto.
    - rewrite (nested_open _ KAngle) in Hn by reflexivity.
      rewrite step_langle, big_decisions_langle.
      destruct (decide o c_langle c_rangle rest) as [[|] o']; cbv beta iota; cbn [app negb];
        rewrite read_broken_open by reflexivity.
      + assert (Hrel' : Rel (mk_fstate (indent st) (tuples st) (Small :: angles st))
                            ((KAngle, false) :: rs)) by (apply rel_angle_small; exact Hrel).
        rewrite (head_starts_nl KAngle rs) by (apply fmt_head; auto).
        f_equal. apply IH with ((KAngle, false) :: rs); auto.
      + assert (Hrel' : Rel (mk_fstate (indent st + 1) (tuples st) (Big :: angles st))
                            ((KAngle, true) :: rs)) by (apply rel_angle_big; exact Hrel).
        rewrite read_broken_nl_indent.
        f_equal. apply IH with ((KAngle, true) :: rs); auto.
    - apply nested_close with (k := KAngle) in Hn as (bs0 & Hbs & Hn); [|reflexivity..].
      apply map_fst_cons in Hbs as (b & rs0 & -> & <-).
      rewrite step_rangle, big_decisions_skip by reflexivity.
      apply rel_inv_angle in Hrel as [(-> & a0 & Ea & Hrel)|(-> & a0 & Ea & Hrel)];
        rewrite Ea; cbv beta iota; rewrite <- ?app_assoc; cbn [app];
        rewrite ?read_broken_nl_indent, read_broken_skip by reflexivity;
        apply IH with rs0; auto.
    - rewrite (step_other _ _ _ _ _ _ Hoth). cbv beta iota. cbn [app].
      rewrite nested_other in Hn by auto using other_opener, other_closer.
      destruct Hoth as (H1 & H2 & H3 & H4 & H5 & H6 & H7).
      rewrite read_broken_skip, big_decisions_skip by assumption.
      apply IH with rs; auto.
  Qed.

  Theorem broken_iff_big o input :
    nestedb input = true -> ws_free input = true ->
    read_broken (format_with O decide o input) = big_decisions O decide o input.
  Proof.
    intros Hn Hw. unfold format_with. apply broken_main with []; auto. apply rel_nil.
  Qed.
End Broken.
