(** C15, second sentence: the indent invariant and the indentation discipline
    of the formatter model, for every small/big decision oracle.

    Plan.  [rel i t a rs] relates the formatter state (indent [i], tuple
    stack [t], angle stack [a]) to the stack [rs] the independent reader
    [discipline_from] has at the same point: [map fst rs] is the bracket stack
    of [nested_from], the flag of an entry says "broken over several lines"
    (brace: always; paren / angle: iff the scope is [Big]); [i] is the number of
    broken entries.  [discipline_main] then follows the reader through the
    chunks emitted by [step], one lemma per look-ahead of the reader. *)
From Coq Require Import List NArith ZArith Bool Lia.
From V Require Import Model.Format Model.FormatSpec Proofs.FormatProofs.
Import ListNotations.
Open Scope N_scope.

(** * characters *)

Definition other (c : N) : Prop :=
  (c =? c_lbrace) = false /\ (c =? c_rbrace) = false /\ (c =? c_comma) = false /\
  (c =? c_lparen) = false /\ (c =? c_rparen) = false /\
  (c =? c_langle) = false /\ (c =? c_rangle) = false.

Lemma classify c :
  c = c_lbrace \/ c = c_rbrace \/ c = c_comma \/ c = c_lparen \/ c = c_rparen \/
  c = c_langle \/ c = c_rangle \/ other c.
Proof.
  unfold other.
  destruct (N.eqb_spec c c_lbrace) as [?|_]; [tauto|].
  destruct (N.eqb_spec c c_rbrace) as [?|_]; [tauto|].
  destruct (N.eqb_spec c c_comma) as [?|_]; [tauto|].
  destruct (N.eqb_spec c c_lparen) as [?|_]; [tauto|].
  destruct (N.eqb_spec c c_rparen) as [?|_]; [tauto|].
  destruct (N.eqb_spec c c_langle) as [?|_]; [tauto|].
  destruct (N.eqb_spec c c_rangle) as [?|_]; [tauto|].
  repeat right. repeat split.
Qed.

Lemma other_opener c : other c -> opener c = None.
Proof.
  intros (H1 & H2 & H3 & H4 & H5 & H6 & H7). unfold opener. rewrite H1, H4, H6. reflexivity.
Qed.

Lemma other_closer c : other c -> closer c = None.
Proof.
  intros (H1 & H2 & H3 & H4 & H5 & H6 & H7). unfold closer. rewrite H2, H5, H7. reflexivity.
Qed.

Lemma ws_free_cons c s :
  ws_free (c :: s) = true ->
  (c =? c_space) = false /\ (c =? c_nl) = false /\ ws_free s = true.
Proof.
  unfold ws_free. cbn [forallb]. intro H.
  apply andb_prop in H as [Hc Hs]. apply negb_true_iff in Hc.
  apply orb_false_iff in Hc as [Ha Hb]. auto.
Qed.

(** * [nested_from] / [stack_after], one character *)

Lemma nested_open c k bs s :
  opener c = Some k -> nested_from bs (c :: s) = nested_from (k :: bs) s.
Proof. intro H. cbn [nested_from]. rewrite H. reflexivity. Qed.

Lemma nested_close c k bs s :
  opener c = None -> closer c = Some k -> nested_from bs (c :: s) = true ->
  exists bs0, bs = k :: bs0 /\ nested_from bs0 s = true.
Proof.
  intros Ho Hc H. cbn [nested_from] in H. rewrite Ho, Hc in H.
  destruct bs as [|k' bs0]; [discriminate|].
  apply andb_prop in H as [Hk Hn].
  exists bs0. split; [|exact Hn].
  destruct k, k'; cbn in Hk; try discriminate; reflexivity.
Qed.

Lemma nested_other c bs s :
  opener c = None -> closer c = None -> nested_from bs (c :: s) = nested_from bs s.
Proof. intros Ho Hc. cbn [nested_from]. rewrite Ho, Hc. reflexivity. Qed.

Lemma stack_after_open c k bs s :
  opener c = Some k -> stack_after bs (c :: s) = stack_after (k :: bs) s.
Proof. intro H. cbn [stack_after]. rewrite H. reflexivity. Qed.

Lemma stack_after_close c k bs s :
  opener c = None -> closer c = Some k -> stack_after (k :: bs) (c :: s) = stack_after bs s.
Proof.
  intros Ho Hc. cbn [stack_after]. rewrite Ho, Hc.
  destruct k; reflexivity.
Qed.

Lemma stack_after_other c bs s :
  opener c = None -> closer c = None -> stack_after bs (c :: s) = stack_after bs s.
Proof. intros Ho Hc. cbn [stack_after]. rewrite Ho, Hc. reflexivity. Qed.

Lemma map_fst_cons (k : bkind) bs0 (rs : list (bkind * bool)) :
  map fst rs = k :: bs0 -> exists b rs0, rs = (k, b) :: rs0 /\ map fst rs0 = bs0.
Proof.
  destruct rs as [|[k' b] rs0]; cbn [map fst]; intro H; [discriminate|].
  injection H as -> <-. eauto.
Qed.

(** * the reader without its fuel *)

Lemma count_spaces_length : forall l k r,
  count_spaces l = (k, r) -> (length r <= length l)%nat.
Proof.
  induction l as [|c l IH]; intros k r H; cbn [count_spaces] in H.
  - injection H as <- <-. cbn. lia.
  - destruct (c =? c_space).
    + destruct (count_spaces l) as [n r'] eqn:E. injection H as <- <-.
      specialize (IH n r' eq_refl). cbn [length]. lia.
    + injection H as <- <-. lia.
Qed.

Lemma discipline_from_cons f rs c out' :
  discipline_from (S f) rs (c :: out') =
  if c =? c_nl then
    let '(k, r) := count_spaces out' in
    Nat.eqb k (expected_spaces rs (hd_error r)) && discipline_from f rs r
  else
    match opener c with
    | Some KBrace => discipline_from f ((KBrace, true) :: rs) out'
    | Some k =>
        let broken := match out' with x :: _ => x =? c_nl | [] => false end in
        discipline_from f ((k, broken) :: rs) out'
    | None =>
        match closer c with
        | Some k =>
            match rs with
            | (k', _) :: st => bkind_eqb k k' && discipline_from f st out'
            | [] => false
            end
        | None => discipline_from f rs out'
        end
    end.
Proof. reflexivity. Qed.

(** any fuel above the length of the text gives the same answer *)
Lemma discipline_fuel : forall f1 f2 rs out,
  (length out < f1)%nat -> (length out < f2)%nat ->
  discipline_from f1 rs out = discipline_from f2 rs out.
Proof.
  induction f1 as [|f1 IH]; intros f2 rs out H1 H2; [lia|].
  destruct f2 as [|f2]; [lia|].
  destruct out as [|c out']; [reflexivity|].
  cbn [length] in H1, H2.
  rewrite !discipline_from_cons.
  destruct (c =? c_nl).
  - destruct (count_spaces out') as [k r] eqn:E.
    apply count_spaces_length in E. f_equal. apply IH; lia.
  - destruct (opener c) as [[]|]; try (apply IH; lia).
    destruct (closer c) as [kc|]; [|apply IH; lia].
    destruct rs as [|[k' fl] st]; [reflexivity|].
    f_equal. apply IH; lia.
Qed.

Definition disc (rs : list (bkind * bool)) (out : list N) : bool :=
  discipline_from (S (length out)) rs out.

Lemma disciplineb_disc out : disciplineb out = disc [] out.
Proof. reflexivity. Qed.

Lemma disc_cons rs c out' :
  disc rs (c :: out') =
  if c =? c_nl then
    let '(k, r) := count_spaces out' in
    Nat.eqb k (expected_spaces rs (hd_error r)) && disc rs r
  else
    match opener c with
    | Some KBrace => disc ((KBrace, true) :: rs) out'
    | Some k =>
        let broken := match out' with x :: _ => x =? c_nl | [] => false end in
        disc ((k, broken) :: rs) out'
    | None =>
        match closer c with
        | Some k =>
            match rs with
            | (k', _) :: st => bkind_eqb k k' && disc st out'
            | [] => false
            end
        | None => disc rs out'
        end
    end.
Proof.
  unfold disc. cbn [length]. rewrite discipline_from_cons.
  destruct (c =? c_nl).
  - destruct (count_spaces out') as [k r] eqn:E.
    apply count_spaces_length in E. f_equal. apply discipline_fuel; lia.
  - reflexivity.
Qed.

Lemma disc_nl rs out' k r :
  count_spaces out' = (k, r) ->
  disc rs (c_nl :: out') = Nat.eqb k (expected_spaces rs (hd_error r)) && disc rs r.
Proof. intro E. rewrite disc_cons. change (c_nl =? c_nl) with true. cbv iota. rewrite E. reflexivity. Qed.

Lemma disc_skip rs c out' :
  (c =? c_nl) = false -> opener c = None -> closer c = None ->
  disc rs (c :: out') = disc rs out'.
Proof. intros H1 H2 H3. rewrite disc_cons, H1, H2, H3. reflexivity. Qed.

Lemma disc_space rs out' : disc rs (c_space :: out') = disc rs out'.
Proof. apply disc_skip; reflexivity. Qed.

Lemma disc_comma rs out' : disc rs (c_comma :: out') = disc rs out'.
Proof. apply disc_skip; reflexivity. Qed.

Lemma disc_lbrace rs out' : disc rs (c_lbrace :: out') = disc ((KBrace, true) :: rs) out'.
Proof. rewrite disc_cons. reflexivity. Qed.

Definition starts_nl (l : list N) : bool :=
  match l with x :: _ => x =? c_nl | [] => false end.

Lemma disc_lparen rs out' :
  disc rs (c_lparen :: out') = disc ((KParen, starts_nl out') :: rs) out'.
Proof. rewrite disc_cons. reflexivity. Qed.

Lemma disc_langle rs out' :
  disc rs (c_langle :: out') = disc ((KAngle, starts_nl out') :: rs) out'.
Proof. rewrite disc_cons. reflexivity. Qed.

Lemma disc_closer c k b rs out' :
  (c =? c_nl) = false -> opener c = None -> closer c = Some k ->
  disc ((k, b) :: rs) (c :: out') = disc rs out'.
Proof.
  intros H1 H2 H3. rewrite disc_cons, H1, H2, H3.
  destruct k; reflexivity.
Qed.

(** * leading spaces *)

Lemma count_spaces_space l :
  count_spaces (c_space :: l) = let '(n, r) := count_spaces l in (S n, r).
Proof. reflexivity. Qed.

Lemma count_spaces_nonspace c l :
  (c =? c_space) = false -> count_spaces (c :: l) = (O, c :: l).
Proof. intro H. cbn [count_spaces]. rewrite H. reflexivity. Qed.

Lemma count_spaces_repeat : forall n T k r,
  count_spaces T = (k, r) -> count_spaces (repeat c_space n ++ T) = ((n + k)%nat, r).
Proof.
  induction n as [|n IH]; intros T k r E; cbn [repeat app]; [exact E|].
  rewrite count_spaces_space, (IH T k r E). reflexivity.
Qed.

(** the reader ignores spaces that do not follow a line break *)
Lemma disc_spaces : forall T rs k r, count_spaces T = (k, r) -> disc rs T = disc rs r.
Proof.
  induction T as [|c T IH]; intros rs k r E; cbn [count_spaces] in E.
  - injection E as <- <-. reflexivity.
  - destruct (N.eqb_spec c c_space) as [->|Hne].
    + destruct (count_spaces T) as [n r'] eqn:E'. injection E as <- <-.
      rewrite disc_space. apply (IH rs n r' eq_refl).
    + injection E as <- <-. reflexivity.
Qed.

Lemma expected_none rs : expected_spaces rs None = (4 * depth rs)%nat.
Proof. reflexivity. Qed.

Lemma expected_lbrace rs : expected_spaces rs (Some c_lbrace) = (4 * depth rs + 1)%nat.
Proof. reflexivity. Qed.

Lemma expected_plain rs x :
  (x =? c_lbrace) = false -> closer x = None ->
  expected_spaces rs (Some x) = (4 * depth rs)%nat.
Proof. intros H1 H2. unfold expected_spaces. rewrite H1, H2. reflexivity. Qed.

Lemma expected_closer_unbroken rs0 k' x k :
  (x =? c_lbrace) = false -> closer x = Some k ->
  expected_spaces ((k', false) :: rs0) (Some x) = (4 * depth ((k', false) :: rs0))%nat.
Proof. intros H1 H2. unfold expected_spaces. rewrite H1, H2. reflexivity. Qed.

Lemma expected_closer_broken rs0 k' x k :
  (x =? c_lbrace) = false -> closer x = Some k ->
  expected_spaces ((k', true) :: rs0) (Some x) = (4 * depth rs0)%nat.
Proof.
  intros H1 H2. unfold expected_spaces. rewrite H1, H2.
  unfold depth. cbn [filter snd length]. lia.
Qed.

Lemma depth_broken k rs : depth ((k, true) :: rs) = S (depth rs).
Proof. reflexivity. Qed.

Lemma depth_unbroken k rs : depth ((k, false) :: rs) = depth rs.
Proof. reflexivity. Qed.

(** a line break, the indentation, a closer of a broken scope *)
Lemma disc_nl_closer c k rs0 i T :
  (c =? c_nl) = false -> (c =? c_space) = false -> (c =? c_lbrace) = false ->
  opener c = None -> closer c = Some k ->
  i = Z.of_nat (depth rs0) ->
  disc ((k, true) :: rs0) (nl_indent i ++ c :: T) = disc rs0 T.
Proof.
  intros Hnl Hsp Hlb Ho Hc ->.
  unfold nl_indent, indentation. cbn [app].
  rewrite (disc_nl _ _ (4 * Z.to_nat (Z.of_nat (depth rs0)) + 0)%nat (c :: T)).
  2:{ apply count_spaces_repeat. apply count_spaces_nonspace; exact Hsp. }
  cbn [hd_error].
  rewrite (expected_closer_broken rs0 k c k Hlb Hc).
  rewrite Nat2Z.id.
  replace (4 * depth rs0 + 0)%nat with (4 * depth rs0)%nat by lia.
  rewrite Nat.eqb_refl. cbn [andb].
  apply disc_closer; assumption.
Qed.

(** * the state relation *)

Inductive rel : Z -> list scope -> list scope -> list (bkind * bool) -> Prop :=
| rel_nil : rel 0 [] [] []
| rel_brace i t a rs : rel i t a rs -> rel (i + 1) t a ((KBrace, true) :: rs)
| rel_paren_big i t a rs : rel i t a rs -> rel (i + 1) (Big :: t) a ((KParen, true) :: rs)
| rel_paren_small i t a rs : rel i t a rs -> rel i (Small :: t) a ((KParen, false) :: rs)
| rel_angle_big i t a rs : rel i t a rs -> rel (i + 1) t (Big :: a) ((KAngle, true) :: rs)
| rel_angle_small i t a rs : rel i t a rs -> rel i t (Small :: a) ((KAngle, false) :: rs).

Definition Rel (st : fstate) (rs : list (bkind * bool)) : Prop :=
  rel (indent st) (tuples st) (angles st) rs.

Lemma rel_depth i t a rs : rel i t a rs -> i = Z.of_nat (depth rs).
Proof.
  induction 1 as [|i t a rs H IH|i t a rs H IH|i t a rs H IH|i t a rs H IH|i t a rs H IH];
    rewrite ?depth_broken, ?depth_unbroken; try rewrite Nat2Z.inj_succ; try lia.
  reflexivity.
Qed.

Lemma rel_counts i t a rs :
  rel i t a rs ->
  length t = count_kind KParen (map fst rs) /\
  length a = count_kind KAngle (map fst rs) /\
  i = Z.of_nat (count_kind KBrace (map fst rs) + count_big t + count_big a).
Proof.
  unfold count_kind, count_big.
  induction 1 as [|i t a rs H (IH1 & IH2 & IH3)|i t a rs H (IH1 & IH2 & IH3)
                  |i t a rs H (IH1 & IH2 & IH3)|i t a rs H (IH1 & IH2 & IH3)
                  |i t a rs H (IH1 & IH2 & IH3)];
    cbn [map fst filter bkind_eqb is_big length]; repeat split; try lia.
Qed.

Lemma rel_inv_nil i t a : rel i t a [] -> i = 0%Z /\ t = [] /\ a = [].
Proof. inversion 1; auto. Qed.

Lemma rel_inv_brace i t a b rs0 :
  rel i t a ((KBrace, b) :: rs0) -> b = true /\ rel (i - 1) t a rs0.
Proof.
  inversion 1 as [|i0 t0 a0 rs1 H0| | | |]; subst. split; [reflexivity|].
  replace (i0 + 1 - 1)%Z with i0 by lia. exact H0.
Qed.

Lemma rel_inv_paren i t a b rs0 :
  rel i t a ((KParen, b) :: rs0) ->
  (b = true /\ exists t0, t = Big :: t0 /\ rel (i - 1) t0 a rs0) \/
  (b = false /\ exists t0, t = Small :: t0 /\ rel i t0 a rs0).
Proof.
  inversion 1 as [| |i0 t0 a0 rs1 H0|i0 t0 a0 rs1 H0| |]; subst.
  - left. split; [reflexivity|]. exists t0. split; [reflexivity|].
    replace (i0 + 1 - 1)%Z with i0 by lia. exact H0.
  - right. split; [reflexivity|]. exists t0. split; [reflexivity|exact H0].
Qed.

Lemma rel_inv_angle i t a b rs0 :
  rel i t a ((KAngle, b) :: rs0) ->
  (b = true /\ exists a0, a = Big :: a0 /\ rel (i - 1) t a0 rs0) \/
  (b = false /\ exists a0, a = Small :: a0 /\ rel i t a0 rs0).
Proof.
  inversion 1 as [| | | |i0 t0 a0 rs1 H0|i0 t0 a0 rs1 H0]; subst.
  - left. split; [reflexivity|]. exists a0. split; [reflexivity|].
    replace (i0 + 1 - 1)%Z with i0 by lia. exact H0.
  - right. split; [reflexivity|]. exists a0. split; [reflexivity|exact H0].
Qed.

(** * the formatter, one character *)

Section WithOracle.
  Variable O : Type.
  Variable decide : O -> N -> N -> list N -> bool * O.

  Lemma format_from_cons st o ch rest :
    format_from O decide st o (ch :: rest) =
    let '(chunk, st', o') := step O decide st o ch rest in
    chunk ++ format_from O decide st' o' rest.
  Proof. reflexivity. Qed.

  Lemma step_lbrace st o rest :
    step O decide st o c_lbrace rest =
    (c_space :: c_lbrace :: nl_indent (indent st + 1),
     mk_fstate (indent st + 1) (tuples st) (angles st), o).
  Proof. reflexivity. Qed.

  Lemma step_rbrace st o rest :
    step O decide st o c_rbrace rest =
    (nl_indent (indent st - 1) ++ [c_rbrace],
     mk_fstate (indent st - 1) (tuples st) (angles st), o).
  Proof. reflexivity. Qed.

  Lemma step_comma st o rest :
    step O decide st o c_comma rest =
    match tuples st with
    | Small :: _ => ([c_comma; c_space], st, o)
    | _ => (c_comma :: nl_indent (indent st), st, o)
    end.
  Proof. reflexivity. Qed.

  Lemma step_lparen st o rest :
    step O decide st o c_lparen rest =
    let '(small, o') := decide o c_lparen c_rparen rest in
    if small then ([c_lparen], mk_fstate (indent st) (Small :: tuples st) (angles st), o')
    else (c_lparen :: nl_indent (indent st + 1),
          mk_fstate (indent st + 1) (Big :: tuples st) (angles st), o').
  Proof. reflexivity. Qed.

  Lemma step_rparen st o rest :
    step O decide st o c_rparen rest =
    match tuples st with
    | Big :: t => (nl_indent (indent st - 1) ++ [c_rparen],
                   mk_fstate (indent st - 1) t (angles st), o)
    | Small :: t => ([c_rparen], mk_fstate (indent st) t (angles st), o)
    | [] => ([c_rparen], st, o)
    end.
  Proof. reflexivity. Qed.

  Lemma step_langle st o rest :
    step O decide st o c_langle rest =
    let '(small, o') := decide o c_langle c_rangle rest in
    if small then ([c_langle], mk_fstate (indent st) (tuples st) (Small :: angles st), o')
    else (c_langle :: nl_indent (indent st + 1),
          mk_fstate (indent st + 1) (tuples st) (Big :: angles st), o').
  Proof. reflexivity. Qed.

  Lemma step_rangle st o rest :
    step O decide st o c_rangle rest =
    match angles st with
    | Big :: t => (nl_indent (indent st - 1) ++ [c_rangle],
                   mk_fstate (indent st - 1) (tuples st) t, o)
    | Small :: t => ([c_rangle], mk_fstate (indent st) (tuples st) t, o)
    | [] => ([c_rangle], st, o)
    end.
  Proof. reflexivity. Qed.

  Lemma step_other st o ch rest : other ch -> step O decide st o ch rest = ([ch], st, o).
  Proof.
    intros (H1 & H2 & H3 & H4 & H5 & H6 & H7). unfold step.
    rewrite H1, H2, H3, H4, H5, H6, H7. reflexivity.
  Qed.

  (** ** how the text produced from a related state begins *)
  Inductive head_form (rs : list (bkind * bool)) : list N -> Prop :=
  | hf_nil : head_form rs []
  | hf_lbrace X : head_form rs (c_space :: c_lbrace :: X)
  | hf_nl X k rs0 : rs = (k, true) :: rs0 -> head_form rs (c_nl :: X)
  | hf_plain c X :
      (c =? c_space) = false -> (c =? c_nl) = false -> (c =? c_lbrace) = false ->
      closer c = None -> head_form rs (c :: X)
  | hf_closer c X k rs0 :
      (c =? c_space) = false -> (c =? c_nl) = false -> (c =? c_lbrace) = false ->
      closer c = Some k -> rs = (k, false) :: rs0 -> head_form rs (c :: X).

  Lemma fmt_head s st o rs :
    Rel st rs -> nested_from (map fst rs) s = true -> ws_free s = true ->
    head_form rs (format_from O decide st o s).
  Proof.
    intros Hrel Hn Hw.
    destruct s as [|ch rest]; [constructor|].
    apply ws_free_cons in Hw as (Hsp & Hnl & Hw).
    rewrite format_from_cons.
    destruct (classify ch) as [->|[->|[->|[->|[->|[->|[->|Hoth]]]]]]].
    - rewrite step_lbrace. cbv beta iota. cbn [app]. constructor.
    - apply nested_close with (k := KBrace) in Hn as (bs0 & Hbs & Hn); [|reflexivity..].
      apply map_fst_cons in Hbs as (b & rs0 & -> & Hbs).
      apply rel_inv_brace in Hrel as (-> & Hrel).
      rewrite step_rbrace. cbv beta iota. unfold nl_indent. cbn [app].
      apply hf_nl with KBrace rs0. reflexivity.
    - rewrite step_comma.
      destruct (tuples st) as [|[] ?]; cbv beta iota; cbn [app]; apply hf_plain; reflexivity.
    - rewrite step_lparen.
      destruct (decide o c_lparen c_rparen rest) as [[|] o']; cbv beta iota; cbn [app];
        apply hf_plain; reflexivity.
    - apply nested_close with (k := KParen) in Hn as (bs0 & Hbs & Hn); [|reflexivity..].
      apply map_fst_cons in Hbs as (b & rs0 & -> & Hbs).
      rewrite step_rparen.
      apply rel_inv_paren in Hrel as [(-> & t0 & -> & Hrel)|(-> & t0 & -> & Hrel)];
        cbv beta iota; unfold nl_indent; cbn [app].
      + apply hf_nl with KParen rs0. reflexivity.
      + apply hf_closer with KParen rs0; reflexivity.
    - rewrite step_langle.
      destruct (decide o c_langle c_rangle rest) as [[|] o']; cbv beta iota; cbn [app];
        apply hf_plain; reflexivity.
    - apply nested_close with (k := KAngle) in Hn as (bs0 & Hbs & Hn); [|reflexivity..].
      apply map_fst_cons in Hbs as (b & rs0 & -> & Hbs).
      rewrite step_rangle.
      apply rel_inv_angle in Hrel as [(-> & t0 & -> & Hrel)|(-> & t0 & -> & Hrel)];
        cbv beta iota; unfold nl_indent; cbn [app].
      + apply hf_nl with KAngle rs0. reflexivity.
      + apply hf_closer with KAngle rs0; reflexivity.
    - rewrite (step_other _ _ _ _ Hoth). cbv beta iota. cbn [app].
      apply hf_plain; auto using other_closer. apply Hoth.
  Qed.

  (** look-ahead 1: the spaces counted after a line break *)
  Lemma head_count rs T k r :
    head_form rs T -> count_spaces T = (k, r) ->
    (4 * depth rs + k)%nat = expected_spaces rs (hd_error r).
  Proof.
    intros [|X|X kb rs0 Hrs|c X Hsp Hnl Hlb Hc|c X kb rs0 Hsp Hnl Hlb Hc Hrs] E.
    - cbn [count_spaces] in E. injection E as <- <-. cbn [hd_error].
      rewrite expected_none. lia.
    - rewrite count_spaces_space, count_spaces_nonspace in E by reflexivity.
      injection E as <- <-. cbn [hd_error]. rewrite expected_lbrace. lia.
    - rewrite count_spaces_nonspace in E by reflexivity.
      injection E as <- <-. cbn [hd_error]. rewrite expected_plain by reflexivity. lia.
    - rewrite count_spaces_nonspace in E by exact Hsp.
      injection E as <- <-. cbn [hd_error]. rewrite expected_plain by assumption. lia.
    - rewrite count_spaces_nonspace in E by exact Hsp.
      injection E as <- <-. cbn [hd_error]. subst rs.
      rewrite (expected_closer_unbroken rs0 kb c kb Hlb Hc). lia.
  Qed.

  (** look-ahead 2: an unbroken scope's opener is not followed by a line break *)
  Lemma head_starts_nl k rs0 T : head_form ((k, false) :: rs0) T -> starts_nl T = false.
  Proof.
    intros [|X|X kb rs1 Hrs|c X Hsp Hnl Hlb Hc|c X kb rs1 Hsp Hnl Hlb Hc Hrs]; cbn [starts_nl];
      try reflexivity; try assumption.
    discriminate Hrs.
  Qed.

  (** a line break followed by the indentation of a related state *)
  Lemma nl_ok s st o rs :
    Rel st rs -> nested_from (map fst rs) s = true -> ws_free s = true ->
    disc rs (format_from O decide st o s) = true ->
    disc rs (nl_indent (indent st) ++ format_from O decide st o s) = true.
  Proof.
    intros Hrel Hn Hw Hd.
    pose proof (fmt_head s st o rs Hrel Hn Hw) as Hh.
    destruct (count_spaces (format_from O decide st o s)) as [k r] eqn:E.
    unfold nl_indent, indentation. cbn [app].
    rewrite (disc_nl _ _ _ _ (count_spaces_repeat _ _ _ _ E)).
    rewrite <- (head_count _ _ _ _ Hh E).
    rewrite (rel_depth _ _ _ _ Hrel), Nat2Z.id, Nat.eqb_refl. cbn [andb].
    rewrite <- (disc_spaces _ rs _ _ E). exact Hd.
  Qed.

  (** ** the reader accepts every text produced from a related state *)
  Lemma discipline_main : forall s st o rs,
    Rel st rs -> nested_from (map fst rs) s = true -> ws_free s = true ->
    disc rs (format_from O decide st o s) = true.
  Proof.
    induction s as [|ch rest IH]; intros st o rs Hrel Hn Hw.
    - destruct rs; [reflexivity|discriminate Hn].
    - pose proof Hw as Hw0.
      apply ws_free_cons in Hw as (Hsp & Hnl & Hw).
      rewrite format_from_cons.
      destruct (classify ch) as [->|[->|[->|[->|[->|[->|[->|Hoth]]]]]]].
      + (* { *)
        rewrite step_lbrace. cbv beta iota. cbn [app].
        rewrite disc_space, disc_lbrace.
        rewrite (nested_open _ KBrace) in Hn by reflexivity.
        assert (Hrel' : Rel (mk_fstate (indent st + 1) (tuples st) (angles st))
                            ((KBrace, true) :: rs)) by (apply rel_brace; exact Hrel).
        apply (nl_ok rest (mk_fstate (indent st + 1) (tuples st) (angles st)) o
                     ((KBrace, true) :: rs)); auto.
      + (* } *)
        apply nested_close with (k := KBrace) in Hn as (bs0 & Hbs & Hn); [|reflexivity..].
        apply map_fst_cons in Hbs as (b & rs0 & -> & <-).
        apply rel_inv_brace in Hrel as (-> & Hrel).
        rewrite step_rbrace. cbv beta iota. rewrite <- app_assoc. cbn [app].
        rewrite disc_nl_closer; try reflexivity.
        * apply IH; auto.
        * apply (rel_depth _ _ _ _ Hrel).
      + (* , *)
        rewrite step_comma.
        assert (Hnest : nested_from (map fst rs) rest = true)
          by (rewrite nested_other in Hn by reflexivity; exact Hn).
        destruct (tuples st) as [|[] ?] eqn:Et; cbv beta iota; cbn [app];
          rewrite disc_comma.
        * apply nl_ok; auto.
        * apply nl_ok; auto.
        * rewrite disc_space. apply IH; auto.
      + (* ( *)
        rewrite step_lparen.
        rewrite (nested_open _ KParen) in Hn by reflexivity.
        destruct (decide o c_lparen c_rparen rest) as [[|] o']; cbv beta iota; cbn [app];
          rewrite disc_lparen.
        * assert (Hrel' : Rel (mk_fstate (indent st) (Small :: tuples st) (angles st))
                              ((KParen, false) :: rs)) by (apply rel_paren_small; exact Hrel).
          rewrite (head_starts_nl KParen rs).
          -- apply IH; auto.
          -- apply fmt_head; auto.
        * assert (Hrel' : Rel (mk_fstate (indent st + 1) (Big :: tuples st) (angles st))
                              ((KParen, true) :: rs)) by (apply rel_paren_big; exact Hrel).
          unfold nl_indent at 1. cbn [app starts_nl]. change (c_nl =? c_nl) with true.
          apply (nl_ok rest (mk_fstate (indent st + 1) (Big :: tuples st) (angles st)) o'
                       ((KParen, true) :: rs)); auto.
      + (* ) *)
        apply nested_close with (k := KParen) in Hn as (bs0 & Hbs & Hn); [|reflexivity..].
        apply map_fst_cons in Hbs as (b & rs0 & -> & <-).
        rewrite step_rparen.
        apply rel_inv_paren in Hrel as [(-> & t0 & Et & Hrel)|(-> & t0 & Et & Hrel)];
          rewrite Et; cbv beta iota.
        * rewrite <- app_assoc. cbn [app].
          rewrite disc_nl_closer; try reflexivity.
          -- apply IH; auto.
          -- apply (rel_depth _ _ _ _ Hrel).
        * cbn [app]. rewrite disc_closer by reflexivity. apply IH; auto.
      + (* < *)
        rewrite step_langle.
        rewrite (nested_open _ KAngle) in Hn by reflexivity.
        destruct (decide o c_langle c_rangle rest) as [[|] o']; cbv beta iota; cbn [app];
          rewrite disc_langle.
        * assert (Hrel' : Rel (mk_fstate (indent st) (tuples st) (Small :: angles st))
                              ((KAngle, false) :: rs)) by (apply rel_angle_small; exact Hrel).
          rewrite (head_starts_nl KAngle rs).
          -- apply IH; auto.
          -- apply fmt_head; auto.
        * assert (Hrel' : Rel (mk_fstate (indent st + 1) (tuples st) (Big :: angles st))
                              ((KAngle, true) :: rs)) by (apply rel_angle_big; exact Hrel).
          unfold nl_indent at 1. cbn [app starts_nl]. change (c_nl =? c_nl) with true.
          apply (nl_ok rest (mk_fstate (indent st + 1) (tuples st) (Big :: angles st)) o'
                       ((KAngle, true) :: rs)); auto.
      + (* > *)
        apply nested_close with (k := KAngle) in Hn as (bs0 & Hbs & Hn); [|reflexivity..].
        apply map_fst_cons in Hbs as (b & rs0 & -> & <-).
        rewrite step_rangle.
        apply rel_inv_angle in Hrel as [(-> & a0 & Ea & Hrel)|(-> & a0 & Ea & Hrel)];
          rewrite Ea; cbv beta iota.
        * rewrite <- app_assoc. cbn [app].
          rewrite disc_nl_closer; try reflexivity.
          -- apply IH; auto.
          -- apply (rel_depth _ _ _ _ Hrel).
        * cbn [app]. rewrite disc_closer by reflexivity. apply IH; auto.
      + (* any other character *)
        rewrite (step_other _ _ _ _ Hoth). cbv beta iota. cbn [app].
        rewrite nested_other in Hn by auto using other_opener, other_closer.
        rewrite disc_skip by auto using other_opener, other_closer.
        apply IH; auto.
  Qed.

  Theorem format_with_discipline o input :
    nestedb input = true -> ws_free input = true ->
    disciplineb (format_with O decide o input) = true.
  Proof.
    intros Hn Hw. rewrite disciplineb_disc. unfold format_with.
    apply discipline_main; auto. apply rel_nil.
  Qed.
End WithOracle.
