(** C17: the run-time checker [prop_dedup_groups_raw] (Corr/CheckTG.v) evaluated on the MODEL's own
    outputs.  For a pair (registry, renumbered registry) whose recorded de-duplication outcomes are
    the model's and whose recorded permutation is the inverse of [pi] (entry [j] of b is entry
    [inv_on pi n j] of a), the checker answers [true] whenever [types_equal] is an equivalence on
    every family of the registry: its three clauses are the three clauses of
    [dedup_partition_invariant] (Proofs/DedupPerm.v). *)
From Coq Require Import List NArith String Bool Lia Arith.
From V Require Import Base.Util Base.Strings Base.Result Model.Registry Model.Derives Model.Equal
  Model.DedupSpec Model.Renumber Model.DedupPerm
  Proofs.GenProofs Proofs.DedupProofs Proofs.DedupGroups Proofs.RenumberPerm Proofs.DedupPerm
  Corr.RunTG Corr.CheckTG.
Import ListNotations.
Open Scope list_scope.

Lemma list_eqb_map_same {A B} (eqb : B -> B -> bool) (f g : A -> B) l :
  (forall x, In x l -> eqb (f x) (g x) = true) -> list_eqb eqb (map f l) (map g l) = true.
Proof.
  induction l as [|a l IH]; intros H; [reflexivity|]. cbn [map list_eqb].
  rewrite (H a (or_introl eq_refl)). cbn [andb]. apply IH. intros x Hx. apply H. right; exact Hx.
Qed.

Lemma combine_map_same {A B C} (f : A -> B) (g : A -> C) l :
  combine (map f l) (map g l) = map (fun x => (f x, g x)) l.
Proof. induction l as [|a l IH]; [reflexivity|]. cbn [map combine]. rewrite IH. reflexivity. Qed.

Lemma bool_eqb_iff (a b : bool) : (a = true <-> b = true) -> Bool.eqb a b = true.
Proof.
  destruct a, b; cbn; intros [H1 H2]; try reflexivity.
  - discriminate (H1 eq_refl).
  - discriminate (H2 eq_refl).
Qed.

Lemma pick_reg_paths (l : registry) i e :
  nth_error l (N.to_nat i) = Some e -> nth (N.to_nat i) (reg_paths l) [] = t_path (snd e).
Proof.
  intros H. unfold reg_paths. apply nth_error_nth. rewrite nth_error_map, H. reflexivity.
Qed.

Section Checker.
  Variable pi : N -> N.
  Variable r : registry.
  Hypothesis Hpi : renumbering (N.of_nat (List.length r)) pi.
  Hypothesis Hb : teq_equiv_on_familiesb r = true.
  Variables ca cb : tg_case.
  Hypothesis Hra : tg_reg ca = r.
  Hypothesis Hrb : tg_reg cb = renumber pi r.
  Hypothesis Hda : tg_dedup ca = obs_of (rmap reg_paths (ensure_unique r)).
  Hypothesis Hdb : tg_dedup cb = obs_of (rmap reg_paths (ensure_unique (renumber pi r))).

  Let n := List.length r.
  Let perm := map (inv_on pi n) (seqN n).

  Theorem dedup_checker_on_model :
    prop_dedup_groups_raw (mk_pair "renumbered" ca cb perm) = true.
  Proof.
    unfold prop_dedup_groups_raw. cbn [tp_kind tp_a tp_b tp_perm]. rewrite String.eqb_refl.
    rewrite Hda, Hdb, Hra, Hrb.
    destruct (dedup_partition_invariant pi r Hpi Hb) as (_ & Hout & Hcl).
    destruct Hout as [(r1 & r2 & H1 & H2)|(g & e & g' & e' & H1 & H2)].
    2:{ rewrite H1, H2. reflexivity. }
    rewrite H1, H2. cbn [rmap bind obs_of].
    specialize (Hcl r1 r2 H1 H2).
    pose proof (ensure_unique_length _ _ H1) as L1.
    pose proof (ensure_unique_length _ _ H2) as L2. rewrite renumber_length in L2.
    (* the entries, by position of b *)
    assert (Hent : forall j, In j (seqN n) ->
      exists e e1 e2, nth_error r (N.to_nat (inv_on pi n j)) = Some e /\
                      nth_error r1 (N.to_nat (inv_on pi n j)) = Some e1 /\
                      nth_error r2 (N.to_nat j) = Some e2 /\ pi (inv_on pi n j) = j).
    { intros j Hj. apply in_seqN in Hj. destruct (pi_inv_on pi n j Hpi Hj) as (Hpj & Hlt).
      destruct (nth_error r (N.to_nat (inv_on pi n j))) as [e|] eqn:E;
        [|apply nth_error_None in E; unfold n in *; lia].
      destruct (nth_error r1 (N.to_nat (inv_on pi n j))) as [e1|] eqn:E1;
        [|apply nth_error_None in E1; unfold n in *; lia].
      destruct (nth_error r2 (N.to_nat j)) as [e2|] eqn:E2;
        [|apply nth_error_None in E2; unfold n in *; lia].
      exists e, e1, e2. auto. }
    set (A := fun j => nth (N.to_nat (inv_on pi n j)) (reg_paths r1) []).
    set (O := fun j => nth (N.to_nat (inv_on pi n j)) (reg_paths r) []).
    set (B := fun j => nth (N.to_nat j) (reg_paths r2) []).
    assert (EA : map (fun j => nth (N.to_nat j) (reg_paths r1) []) perm = map A (seqN n)).
    { unfold perm. rewrite map_map. reflexivity. }
    assert (EO : map (fun j => nth (N.to_nat j) (reg_paths r) []) perm = map O (seqN n)).
    { unfold perm. rewrite map_map. reflexivity. }
    assert (EB : reg_paths r2 = map B (seqN n)).
    { unfold B. replace n with (List.length (reg_paths r2)) by (unfold reg_paths; rewrite map_length; exact L2).
      symmetry. apply map_nth_seqN. }
    assert (EOb : reg_paths (renumber pi r) = map O (seqN n)).
    { unfold renumber, reg_paths. rewrite map_map. fold n. apply map_ext_in. intros j Hj.
      destruct (Hent j Hj) as (e & e1 & e2 & He & _).
      unfold O. rewrite (pick_reg_paths r _ e He).
      rewrite (nth_error_nth _ _ dummy_entry He). reflexivity. }
    rewrite EA, EO, EOb, EB. rewrite !map_length, seqN_length, Nat.eqb_refl. cbn [andb].
    rewrite (list_eqb_refl path_eqb path_eqb_refl). cbn [andb].
    rewrite !combine_map_same, !map_map. cbn [fst snd].
    (* the facts behind the two remaining clauses *)
    assert (Hfacts : forall j, In j (seqN n) ->
      (A j = O j <-> B j = O j) /\
      forall y, In y (seqN n) -> O j = O y -> (A j = A y <-> B j = B y)).
    { intros j Hj. destruct (Hent j Hj) as (e & e1 & e2 & He & He1 & He2 & Hpj).
      assert (He2' : nth_error r2 (N.to_nat (pi (inv_on pi n j))) = Some e2) by (rewrite Hpj; exact He2).
      destruct (Hcl (inv_on pi n j) e e1 e2 He He1 He2') as (Hren & Hpart).
      unfold A, O, B. rewrite (pick_reg_paths r1 _ e1 He1), (pick_reg_paths r _ e He), (pick_reg_paths r2 _ e2 He2).
      split.
      - destruct (list_eq_dec string_dec (t_path (snd e1)) (t_path (snd e))) as [E1|N1];
          destruct (list_eq_dec string_dec (t_path (snd e2)) (t_path (snd e))) as [E2|N2]; try tauto.
      - intros y Hy HO. destruct (Hent y Hy) as (f & f1 & f2 & Hf & Hf1 & Hf2 & Hpy).
        assert (Hf2' : nth_error r2 (N.to_nat (pi (inv_on pi n y))) = Some f2) by (rewrite Hpy; exact Hf2).
        rewrite (pick_reg_paths r1 _ f1 Hf1), (pick_reg_paths r2 _ f2 Hf2).
        rewrite (pick_reg_paths r _ f Hf) in HO.
        exact (Hpart (inv_on pi n y) f f1 f2 Hf Hf1 Hf2' HO). }
    apply andb_true_intro. split.
    - apply list_eqb_map_same. intros j Hj. apply bool_eqb_iff.
      rewrite !path_eqb_eq. exact (proj1 (Hfacts j Hj)).
    - apply forallb_forall. intros x Hx. apply in_map_iff in Hx as (j & <- & Hj).
      cbv beta iota. rewrite !map_map. cbn [fst snd].
      apply list_eqb_map_same. intros y Hy. apply bool_eqb_iff.
      rewrite !andb_true_iff, !path_eqb_eq.
      destruct (Hfacts j Hj) as (_ & Hp). specialize (Hp y Hy). tauto.
  Qed.
End Checker.
