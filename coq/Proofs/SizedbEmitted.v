(** The run-time checker and the registry condition, through the whole chain: when [sizedb]
    accepts the parse of the emitted tokens, the registry's by-value graph has no cycle
    ([by_value_acyclicb r s = true]).  The converse does not hold (generic parameters are opaque
    for [by_value_acyclicb]; [sizedb] follows exposed generic arguments: [sz_instantiation_gap]). *)
From Coq Require Import List NArith String Ascii Bool Lia Arith Sorted.
From V Require Import Base.Util Base.Strings Base.Result Model.Registry Model.Settings Model.Subst
  Model.TypePath Model.Derives Model.Generate Model.Emit Model.Equal Model.WellFormed Checkers.Parse
  Checkers.Sem Model.Unparse Model.UnparseClosed Proofs.TpMap Proofs.ParseEq Proofs.ParseTy
  Proofs.ParseItem Proofs.ParseMod Proofs.GenTotal Proofs.ClosedProofs Proofs.ParseClosed.
From V Require Import Proofs.GenProofs Proofs.FidelityBase Model.Shape Proofs.ArityProofs
  Proofs.ResolveTotal.
From V Require Import Model.Sized Model.SizedReg Proofs.SizedbSound Proofs.SizedbItems
  Proofs.SizedRegProofs.
Import ListNotations.
Open Scope nat_scope. Open Scope string_scope. Open Scope list_scope.

(** the IR-level closedness that [closedb_emitted] establishes on the way, as a statement *)
Lemma generate_ir_closed r s teq m toks :
  Proofs.ClosedProofs.root_fresh s -> starts_with "_" (s_root s) = false -> wrappers_fresh s ->
  skeleton_consistent r s ->
  generate r s teq = Ok m -> emit_module s m = Ok toks -> keys_prefix_free m ->
  ir_closed s m.
Proof.
  intros Hfresh Hus [Hwc Hwb] Hsk Hg He Hpf.
  destruct (generate_unique_names _ _ _ _ Hg) as [Hsorted Hnd].
  assert (Hentry : forall p id ir, In (p, (id, ir)) m ->
            items_get m p = Some (id, ir) /\
            exists t flat, t_path t = p /\ create_type_ir r s t flat = Ok (Some ir)).
  { intros p id ir Hin.
    assert (Hget : items_get m p = Some (id, ir)) by (apply (items_get_In_iff m Hsorted); exact Hin).
    split; [exact Hget|].
    destruct (generate_items_come_from_entries _ _ _ _ _ _ _ Hg Hget) as (t & flat & _ & Hpath & _ & _ & Hc).
    exists t, flat. split; assumption. }
  assert (Htok : forall p id ir, In (p, (id, ir)) m -> ir_tokenizable ir).
  { apply (emit_module_tokenizable s m toks He). intros [p [id ir]] Hin. cbn [fst].
    destruct (Hentry p id ir Hin) as (_ & t & flat & Hpath & Hc).
    destruct (create_type_ir_name_params _ _ _ _ _ Hc) as (Hne & _ & _). rewrite Hpath in Hne. exact Hne. }
  unfold ir_closed. split; [exact Hus|]. split.
  { destruct Hfresh as (_ & Ha & _). destruct (alloc_tokens (s_alloc s)) as [|a l]; [reflexivity|].
    cbn [hd_is hd_error] in *. unfold Parse.teq. destruct (String.eqb a (s_root s)) eqn:E; [|reflexivity].
    apply String.eqb_eq in E. subst a. congruence. }
  split; [exact Hnd|]. split; [exact Hpf|].
  intros p id ir Hin. destruct (Hentry p id ir Hin) as (Hget & t & flat & Hpath & Hc).
  destruct (create_type_ir_name_params _ _ _ _ _ Hc) as (Hne & Hlast & Hparams). rewrite Hpath in *.
  split; [exact Hne|]. split; [exact Hlast|].
  unfold item_closed. split; [|split].
  - intros f Hf. split; [exact (Htok p id ir Hin f Hf)|].
    intros x Hx. pose proof (create_type_ir_inv r s Hfresh _ _ _ Hc f Hf x Hx) as Hnode.
    destruct x as [q|ptoks params|o|n o|es|q|i fl c|o st b]; cbn [node_closed]; try exact I.
    + intros Hhd.
      assert (Hhd' : hd_error ptoks = Some (s_root s)).
      { destruct ptoks as [|a l]; [discriminate|]. cbn [hd_is] in Hhd. apply String.eqb_eq in Hhd.
        subst a. reflexivity. }
      destruct (paths_resolve r s Hfresh teq m Hg p id ir Hget f Hf ptoks params Hx Hhd')
        as (q & Eq & Hq).
      destruct (items_get m q) as [[id' ir']|] eqn:Gq; [clear Hq|congruence].
      exists q, id', ir'. split; [exact Eq|]. split; [exact Gq|].
      exact (arity_consistent r s teq m Hsk Hfresh Hg p id ir Hget f Hf ptoks params Hx q id' ir' Eq Gq).
    + cbn [node_inv] in Hnode. destruct fl; [exact I|]. apply Hwc. exact Hnode.
    + cbn [node_inv] in Hnode. apply Hwb. exact Hnode.
  - intros q Hq. destruct (generics_used _ _ _ _ _ Hc) as [Hu _]. exact (Hu q Hq).
  - rewrite Hparams. apply params_nodup.
Qed.

(** the arguments the harness passes to [sizedb] ([fenv_of], Corr/CheckTG.v) *)
Definition sized_alloc (s : settings) : list string := toks_to_segs (alloc_tokens (s_alloc s)).
Definition sized_compact (s : settings) : option (list string) := option_map toks_to_segs (s_compact s).

(** the configured compact wrapper path is read by the checker as a by-value wrapper: it is a
    plain path whose names are the ones the checker is told, it is not one of the heap heads
    under the alloc crate and it does not start with the root ident *)
Definition compact_wrapper_seen (s : settings) : Prop :=
  forall c, s_compact s = Some c -> compact_seen (s_root s) (sized_alloc s) (sized_compact s) c.

Theorem sizedb_emitted_acyclic r s teq m toks :
  Proofs.ClosedProofs.root_fresh s -> starts_with "_" (s_root s) = false -> wrappers_fresh s ->
  skeleton_consistent r s ->
  generate r s teq = Ok m -> emit_module s m = Ok toks -> items_plain s m = true ->
  keys_prefix_free m -> compact_wrapper_seen s ->
  exists pm, parse_module toks = Some pm /\
    (sizedb (s_root s) (sized_alloc s) (sized_compact s) true pm = true ->
     (forall n p, ~ walk (item_edge s m) n p p) /\ by_value_acyclicb r s = true).
Proof.
  intros Hfresh Hus Hw Hsk Hg He Hp Hpf Hcw. exists (pmod_of_items s m).
  split; [apply emit_parses; assumption|]. intros Hs.
  pose proof (generate_ir_closed r s teq m toks Hfresh Hus Hw Hsk Hg He Hpf) as Hcl.
  assert (Hac : forall n p, ~ walk (item_edge s m) n p p).
  { apply (sizedb_items_acyclic s m (sized_alloc s) (sized_compact s) true Hcl Hp).
    - destruct Hfresh as (Hc & _). exact Hc.
    - intros p id ir Hin f Hf i c Hx. apply Hcw.
      destruct (generate_unique_names _ _ _ _ Hg) as [Hsorted _].
      assert (Hget : items_get m p = Some (id, ir)) by (apply (items_get_In_iff m Hsorted); exact Hin).
      destruct (generate_items_come_from_entries _ _ _ _ _ _ _ Hg Hget) as (t & flat & _ & _ & _ & _ & Hc).
      exact (create_type_ir_inv r s Hfresh _ _ _ Hc f Hf _ Hx).
    - exact Hs. }
  split; [exact Hac|]. apply (sized_iff r s Hfresh teq m Hg). exact Hac.
Qed.
