(** C14: the INDEPENDENT token reader [Corr.RunC14.conf] never accepts the array repeat form
    [[ e ; <n>usize ]] for an array entry with n >= 2 elements of a type that is not [copy_tyb]:
    whenever it accepts a token list for such an entry, the first element it read is followed by a
    COMMA (universally; no scope hypothesis, any module, any paths, any fuel). *)
From Coq Require Import List NArith Bool String Ascii Lia.
From V Require Import Base.Util Base.Result Model.Registry Model.Settings Model.ExampleRust Model.Conforms
  Checkers.Parse Corr.RunTG Corr.RunC14 Proofs.ConformsTokens.
Import ListNotations.
Open Scope string_scope. Open Scope list_scope.

Ltac bits a := destruct a as [[] [] [] [] [] [] [] []].

Section Refuse.
  Variable r : registry.
  Variable root : string.
  Variable pm : option pmod.
  Variable paths : list (obs tokens).
  Notation CF := (conf r root pm paths).

  Theorem reader_repeat_needs_copy fuel id t len e ts rest :
    lookup r id = Some t -> t_def t = TDArray len e -> (2 <= len)%N -> copy_tyb r e = false ->
    CF (S fuel) id ts = Some rest ->
    exists ts1 r3, ts = "[" :: ts1 /\ CF fuel e ts1 = Some ("," :: r3).
  Proof.
    intros L D Hlen Hnc H.
    assert (H0 : (len =? 0)%N = false) by (apply N.eqb_neq; lia).
    assert (H1 : (len =? 1)%N = false) by (apply N.eqb_neq; lia).
    assert (Hle : (len <=? 1)%N = false) by (apply N.leb_gt; lia).
    cbn [conf] in H.
    rewrite (strip_compact_self r id t L ltac:(intros e0; rewrite D; discriminate)) in H.
    rewrite D in H. cbv beta iota in H.
    destruct ts as [|t0 ts1]; [discriminate H|].
    unfold RunC14.expect at 1 in H. destruct (String.eqb t0 "[") eqn:E0; [|discriminate H].
    apply String.eqb_eq in E0. subst t0. cbn [obind] in H.
    exists ts1.
    (* not the empty array *)
    assert (H' : obind (CF fuel e ts1)
                   (fun r2 => match r2 with
                              | ";" :: n :: "]" :: rest0 =>
                                  let ok := match strip_suffix "usize" n with
                                            | Some d => option_eqb N.eqb (decimal d) (Some len)
                                            | None => option_eqb N.eqb (decimal n) (Some len)
                                            end in
                                  if ok && ((len <=? 1)%N || copy_tyb r e) then Some rest0 else None
                              | "," :: r3 =>
                                  obind (read_elems (CF fuel) (S (List.length r3)) e r3 1)
                                        (fun nr => if (fst nr =? len)%N then Some (snd nr) else None)
                              | "]" :: rest0 => if (len =? 1)%N then Some rest0 else None
                              | _ => None
                              end) = Some rest).
    { destruct ts1 as [|t1 l]; [exact H|].
      destruct (string_dec t1 "]") as [->|Hn].
      - cbv iota in H. rewrite H0 in H. discriminate H.
      - rewrite <- H. symmetry.
        exact (match_rbracket (fun rest0 => if (len =? 0)%N then Some rest0 else None) _ t1 l Hn). }
    clear H. destruct (CF fuel e ts1) as [r2|] eqn:EC; [|discriminate H']. cbn [obind] in H'.
    rewrite Hle, Hnc, H1 in H'. cbn [orb] in H'.
    destruct r2 as [|x r2]; [discriminate H'|].
    destruct (string_dec x ",") as [->|Hc]; [exists r2; split; reflexivity|].
    exfalso.
    destruct x as [|a x]; [discriminate H'|].
    bits a; try (cbv beta iota in H'; discriminate H');
      (destruct x as [|a' x]; [|cbv beta iota in H'; discriminate H']);
      try (cbv beta iota in H'; discriminate H'); try (apply Hc; reflexivity).
    (* the one remaining head is ";" *)
    destruct r2 as [|n [|y r3]]; try (cbv beta iota in H'; discriminate H').
    destruct y as [|b y]; [cbv beta iota in H'; discriminate H'|].
    bits b; try (cbv beta iota in H'; discriminate H').
    destruct y as [|b' y]; [|cbv beta iota in H'; discriminate H'].
    cbv beta iota zeta in H'. rewrite andb_false_r in H'. discriminate H'.
  Qed.

  (** the repeat form is refused outright *)
  Corollary reader_refuses_repeat fuel id t len e ts1 x :
    lookup r id = Some t -> t_def t = TDArray len e -> (2 <= len)%N -> copy_tyb r e = false ->
    CF fuel e ts1 = Some (";" :: x) ->
    CF (S fuel) id ("[" :: ts1) = None.
  Proof.
    intros L D Hlen Hnc He.
    destruct (CF (S fuel) id ("[" :: ts1)) as [rest|] eqn:E; [|reflexivity]. exfalso.
    destruct (reader_repeat_needs_copy fuel id t len e _ rest L D Hlen Hnc E) as (ts1' & r3 & Ets & Hr).
    inversion Ets; subst ts1'. rewrite He in Hr. discriminate Hr.
  Qed.
End Refuse.
