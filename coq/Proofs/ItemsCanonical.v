(** The ordered map  path -> (id, item)  is canonical: [path_compare] is a strict
    total order, [items_insert] keeps the map strictly sorted, a sorted map is
    determined by its lookup function, insertion order does not matter, and the
    emitter reads a map only through its (path, item tokens) list. *)
From Coq Require Import List NArith String Bool Sorted Permutation Lia.
From V Require Import Base.Strings Base.Result Model.Registry Model.Settings Model.Subst
  Model.TypePath Model.Derives Model.Generate Model.Emit Model.Renumber Proofs.StringOrder Proofs.GenProofs.
Import ListNotations.

(** ** 1. the order on paths *)

Lemma path_compare_refl a : path_compare a a = Eq.
Proof. apply path_compare_eq; reflexivity. Qed.

Lemma path_compare_gt_lt : forall a b, path_compare a b = Gt <-> path_compare b a = Lt.
Proof.
  induction a as [|x a IH]; destruct b as [|y b]; cbn [path_compare]; try (split; congruence).
  rewrite (String.compare_antisym x y).
  destruct (String.compare y x); cbn [CompOpp]; try (split; congruence).
  apply IH.
Qed.

Lemma path_compare_lt_trans : forall a b c,
  path_compare a b = Lt -> path_compare b c = Lt -> path_compare a c = Lt.
Proof.
  induction a as [|x a IH]; destruct b as [|y b]; destruct c as [|z c]; cbn [path_compare];
    try congruence.
  destruct (str_compare_spec x y) as [E|E|E]; try discriminate.
  - subst y. destruct (String.compare x z); try congruence. apply IH.
  - intros _. unfold str_lt in E.
    destruct (str_compare_spec y z) as [E2|E2|E2]; try discriminate.
    + subst z. intros _. rewrite E. reflexivity.
    + intros _. unfold str_lt in E2. rewrite (str_compare_lt_trans _ _ _ E E2). reflexivity.
Qed.

Lemma path_lt_irrefl a : ~ path_lt a a.
Proof. unfold path_lt. rewrite path_compare_refl. discriminate. Qed.

Lemma path_lt_trans a b c : path_lt a b -> path_lt b c -> path_lt a c.
Proof. apply path_compare_lt_trans. Qed.

Lemma path_lt_asym a b : path_lt a b -> ~ path_lt b a.
Proof. intros H1 H2. exact (path_lt_irrefl a (path_lt_trans _ _ _ H1 H2)). Qed.

Lemma path_compare_spec a b :
  CompareSpec (a = b) (path_lt a b) (path_lt b a) (path_compare a b).
Proof.
  destruct (path_compare a b) eqn:E; constructor.
  - apply path_compare_eq; exact E.
  - exact E.
  - apply path_compare_gt_lt; exact E.
Qed.

(** ** 2. the ordered map *)

Lemma items_get_cons k (v : N * type_ir) (m : items) q :
  items_get ((k, v) :: m) q = if path_eqb k q then Some v else items_get m q.
Proof. reflexivity. Qed.

Lemma items_sorted_nil : items_sorted [].
Proof. unfold items_sorted. cbn [map]. constructor. Qed.

Lemma items_sorted_cons k (v : N * type_ir) (m : items) :
  items_sorted ((k, v) :: m) ->
  items_sorted m /\ forall q, In q (map fst m) -> path_lt k q.
Proof.
  unfold items_sorted. cbn [map fst]. intros H.
  inversion H as [|? ? Hs Hf]; subst. split; [exact Hs|].
  rewrite Forall_forall in Hf. exact Hf.
Qed.

Lemma items_sorted_cons_intro k (v : N * type_ir) (m : items) :
  items_sorted m -> (forall q, In q (map fst m) -> path_lt k q) -> items_sorted ((k, v) :: m).
Proof.
  unfold items_sorted. cbn [map fst]. intros Hs Hf.
  constructor; [exact Hs|]. apply Forall_forall. exact Hf.
Qed.

Lemma items_get_none : forall (m : items) p, items_get m p = None <-> ~ In p (map fst m).
Proof.
  induction m as [|[k v] m IH]; intros p.
  - cbn. split; [intros _ H; exact H|reflexivity].
  - rewrite items_get_cons. cbn [map fst In].
    destruct (path_eqb k p) eqn:E.
    + apply path_eqb_eq in E. split; [discriminate|].
      intros H. exfalso. apply H. left; exact E.
    + rewrite IH. split.
      * intros H [Hk|Hin]; [|exact (H Hin)].
        subst p. rewrite path_eqb_refl in E. discriminate.
      * intros H Hin. apply H. right; exact Hin.
Qed.

Lemma items_get_some_in : forall (m : items) p v, items_get m p = Some v -> In (p, v) m.
Proof.
  induction m as [|[k v'] m IH]; intros p v H.
  - cbn in H. discriminate.
  - rewrite items_get_cons in H. destruct (path_eqb k p) eqn:E.
    + apply path_eqb_eq in E. inversion H; subst. left; reflexivity.
    + right. apply IH; exact H.
Qed.

Lemma items_get_in_nodup : forall (m : items) p v,
  NoDup (map fst m) -> In (p, v) m -> items_get m p = Some v.
Proof.
  induction m as [|[k v'] m IH]; intros p v ND Hin.
  - destruct Hin.
  - cbn [map fst] in ND. inversion ND as [|? ? Hnin ND']; subst.
    rewrite items_get_cons. destruct Hin as [E|Hin].
    + inversion E; subst. rewrite path_eqb_refl. reflexivity.
    + destruct (path_eqb k p) eqn:E.
      * apply path_eqb_eq in E; subst p. exfalso. apply Hnin.
        apply (in_map fst) in Hin. exact Hin.
      * apply IH; assumption.
Qed.

Lemma items_sorted_NoDup (m : items) : items_sorted m -> NoDup (map fst m).
Proof.
  unfold items_sorted. intros H.
  induction H as [|k ks Hs IH Hf]; constructor; auto.
  intros Hin. rewrite Forall_forall in Hf. exact (path_lt_irrefl k (Hf k Hin)).
Qed.

Lemma items_get_in (m : items) p v :
  items_sorted m -> (items_get m p = Some v <-> In (p, v) m).
Proof.
  intros S. split.
  - apply items_get_some_in.
  - apply items_get_in_nodup. apply items_sorted_NoDup; exact S.
Qed.

(** a key below the head of a sorted map is absent *)
Lemma items_get_below k q (v : N * type_ir) (m : items) :
  items_sorted ((q, v) :: m) -> path_lt k q -> items_get ((q, v) :: m) k = None.
Proof.
  intros S L. apply items_get_none. cbn [map fst In].
  destruct (items_sorted_cons _ _ _ S) as [_ F].
  intros [E|Hin].
  - subst q. exact (path_lt_irrefl _ L).
  - exact (path_lt_asym _ _ L (F _ Hin)).
Qed.

Lemma items_get_head_absent k (v : N * type_ir) (m : items) :
  items_sorted ((k, v) :: m) -> items_get m k = None.
Proof.
  intros S. apply items_get_none.
  destruct (items_sorted_cons _ _ _ S) as [_ F].
  intros Hin. exact (path_lt_irrefl _ (F _ Hin)).
Qed.

Lemma items_insert_keys_in : forall (m : items) p v k,
  In k (map fst (items_insert m p v)) -> k = p \/ In k (map fst m).
Proof.
  induction m as [|[k0 v0] m IH]; intros p v k; cbn [items_insert].
  - cbn [map fst In]. intros [H|H]; [left; symmetry; exact H|destruct H].
  - destruct (path_compare p k0); cbn [map fst In].
    + intros H; right; exact H.
    + intros [H|H]; [left; symmetry; exact H|right; exact H].
    + intros [H|H]; [right; left; exact H|].
      apply IH in H. destruct H as [H|H]; [left; exact H|right; right; exact H].
Qed.

Lemma items_insert_sorted : forall (m : items) p v,
  items_sorted m -> items_sorted (items_insert m p v).
Proof.
  induction m as [|[k v'] m IH]; intros p v S; cbn [items_insert].
  - apply items_sorted_cons_intro; [exact S|]. intros q Hq. destruct Hq.
  - destruct (items_sorted_cons _ _ _ S) as [S' F].
    destruct (path_compare_spec p k) as [E|E|E].
    + exact S.
    + apply items_sorted_cons_intro; [exact S|].
      cbn [map fst In]. intros q [Hq|Hq].
      * subst q. exact E.
      * eapply path_lt_trans; [exact E|]. apply F; exact Hq.
    + apply items_sorted_cons_intro; [apply IH; exact S'|].
      intros q Hq. apply items_insert_keys_in in Hq as [Hq|Hq].
      * subst q. exact E.
      * apply F; exact Hq.
Qed.

(** keep-first lookup after insertion, without an absence hypothesis *)
Lemma items_get_insert : forall (m : items) p v q,
  items_sorted m ->
  items_get (items_insert m p v) q =
  match items_get m q with
  | Some x => Some x
  | None => if path_eqb p q then Some v else None
  end.
Proof.
  induction m as [|[k v'] m IH]; intros p v q S; cbn [items_insert].
  - cbn [items_get]. reflexivity.
  - destruct (items_sorted_cons _ _ _ S) as [S' F].
    destruct (path_compare_spec p k) as [E|E|E].
    + subst k. rewrite items_get_cons. destruct (path_eqb p q); [reflexivity|].
      destruct (items_get m q); reflexivity.
    + rewrite (items_get_cons p v ((k, v') :: m) q).
      destruct (path_eqb p q) eqn:Epq.
      * apply path_eqb_eq in Epq; subst q.
        rewrite (items_get_below _ _ _ _ S E). reflexivity.
      * destruct (items_get ((k, v') :: m) q); reflexivity.
    + rewrite (items_get_cons k v' (items_insert m p v) q).
      rewrite (items_get_cons k v' m q).
      destruct (path_eqb k q); [reflexivity|]. apply IH; exact S'.
Qed.

Lemma gen_loop_sorted r s teq flat : forall l acc m,
  items_sorted acc -> gen_loop r s teq flat l acc = Ok m -> items_sorted m.
Proof.
  induction l as [|[id t] l IH]; intros acc m S H.
  - cbn in H. inversion H; subst; exact S.
  - rewrite gen_loop_cons in H.
    destruct (subs_contains (s_subs s) (t_path t)); [eapply IH; eauto|].
    destruct (namespace (t_path t)) as [|n0 ns]; [eapply IH; eauto|].
    destruct (create_type_ir r s t flat) as [[ir|]|e|msg]; cbn [bind] in H; try discriminate;
      [|eapply IH; eauto].
    destruct (forallb ident_lexb (n0 :: ns)); [|discriminate].
    destruct (items_get acc (t_path t)) as [[other ir']|] eqn:G.
    + destruct (teq id other) as [[|]|e|msg]; cbn [bind] in H; try discriminate.
      eapply IH; eauto.
    + eapply IH; [|exact H]. apply items_insert_sorted; exact S.
Qed.

(** two sorted maps whose lookups are pointwise related are related entry by entry *)
Lemma sorted_items_rel : forall (R : (N * type_ir) -> (N * type_ir) -> Prop) (m1 m2 : items),
  items_sorted m1 -> items_sorted m2 ->
  (forall p, match items_get m1 p, items_get m2 p with
             | Some v1, Some v2 => R v1 v2
             | None, None => True
             | _, _ => False
             end) ->
  Forall2 (fun e1 e2 => fst e1 = fst e2 /\ R (snd e1) (snd e2)) m1 m2.
Proof.
  intros R. induction m1 as [|[k1 v1] m1 IH]; intros m2 S1 S2 H.
  - destruct m2 as [|[k2 v2] m2]; [constructor|].
    exfalso. specialize (H k2). rewrite items_get_cons, path_eqb_refl in H. exact H.
  - destruct m2 as [|[k2 v2] m2].
    + exfalso. specialize (H k1). rewrite items_get_cons, path_eqb_refl in H. exact H.
    + assert (k1 = k2) as E.
      { destruct (path_compare_spec k1 k2) as [E|E|E]; [exact E| |]; exfalso.
        - specialize (H k1). rewrite (items_get_below _ _ _ _ S2 E) in H.
          rewrite items_get_cons, path_eqb_refl in H. exact H.
        - specialize (H k2). rewrite (items_get_below _ _ _ _ S1 E) in H.
          rewrite items_get_cons, path_eqb_refl in H. exact H. }
      subst k2.
      destruct (items_sorted_cons _ _ _ S1) as [S1' F1].
      destruct (items_sorted_cons _ _ _ S2) as [S2' F2].
      constructor.
      * cbn [fst snd]. split; [reflexivity|].
        specialize (H k1). rewrite !items_get_cons, path_eqb_refl in H. exact H.
      * apply IH; [exact S1'|exact S2'|]. intros p. specialize (H p).
        rewrite !items_get_cons in H.
        destruct (path_eqb k1 p) eqn:Ep; [|exact H].
        apply path_eqb_eq in Ep; subst p.
        rewrite (items_get_head_absent _ _ _ S1), (items_get_head_absent _ _ _ S2). exact I.
Qed.

Lemma Forall2_eq_pairs (m1 m2 : items) :
  Forall2 (fun e1 e2 => fst e1 = fst e2 /\ snd e1 = snd e2) m1 m2 -> m1 = m2.
Proof.
  intros H. induction H as [|[k1 v1] [k2 v2] l1 l2 [E1 E2] _ IH]; [reflexivity|].
  cbn [fst snd] in E1, E2. subst. reflexivity.
Qed.

Lemma sorted_items_unique (m1 m2 : items) :
  items_sorted m1 -> items_sorted m2 -> (forall p, items_get m1 p = items_get m2 p) -> m1 = m2.
Proof.
  intros S1 S2 H. apply Forall2_eq_pairs.
  apply (sorted_items_rel eq); [exact S1|exact S2|].
  intros p. rewrite (H p). destruct (items_get m2 p); [reflexivity|exact I].
Qed.

(** insertion order does not matter *)

Lemma insert_all_cons e l acc :
  insert_all (e :: l) acc = insert_all l (items_insert acc (fst e) (snd e)).
Proof. reflexivity. Qed.

Lemma insert_all_sorted : forall l acc, items_sorted acc -> items_sorted (insert_all l acc).
Proof.
  induction l as [|e l IH]; intros acc S.
  - exact S.
  - rewrite insert_all_cons. apply IH. apply items_insert_sorted; exact S.
Qed.

(** lookup in the built map = keep-first lookup in the accumulator, then in the
    insertion list read as an association list *)
Lemma items_get_insert_all : forall l acc q,
  items_sorted acc ->
  items_get (insert_all l acc) q =
  match items_get acc q with Some x => Some x | None => items_get l q end.
Proof.
  induction l as [|[p v] l IH]; intros acc q S.
  - cbn [insert_all fold_left items_get]. destruct (items_get acc q); reflexivity.
  - rewrite insert_all_cons. cbn [fst snd].
    rewrite IH by (apply items_insert_sorted; exact S).
    rewrite items_get_insert by exact S.
    rewrite (items_get_cons p v l q).
    destruct (items_get acc q); [reflexivity|].
    destruct (path_eqb p q); reflexivity.
Qed.

Lemma items_get_insert_all_in l p v :
  NoDup (map fst l) -> (items_get (insert_all l []) p = Some v <-> In (p, v) l).
Proof.
  intros ND. rewrite items_get_insert_all by apply items_sorted_nil.
  cbn [items_get]. split.
  - apply items_get_some_in.
  - apply items_get_in_nodup; exact ND.
Qed.

Lemma items_get_perm (l1 l2 : items) q :
  NoDup (map fst l1) -> Permutation l1 l2 -> items_get l1 q = items_get l2 q.
Proof.
  intros ND P.
  assert (ND2 : NoDup (map fst l2)).
  { eapply Permutation_NoDup; [|exact ND]. apply Permutation_map; exact P. }
  destruct (items_get l1 q) as [v|] eqn:E1.
  - apply items_get_some_in in E1. symmetry. apply items_get_in_nodup; [exact ND2|].
    eapply Permutation_in; [exact P|exact E1].
  - destruct (items_get l2 q) as [v|] eqn:E2; [|reflexivity].
    apply items_get_some_in in E2.
    apply (Permutation_in _ (Permutation_sym P)) in E2.
    apply (items_get_in_nodup _ _ _ ND) in E2. congruence.
Qed.

Theorem items_insert_canonical l1 l2 :
  NoDup (map fst l1) -> Permutation l1 l2 -> insert_all l1 [] = insert_all l2 [].
Proof.
  intros ND P. apply sorted_items_unique.
  - apply insert_all_sorted, items_sorted_nil.
  - apply insert_all_sorted, items_sorted_nil.
  - intros p. rewrite !items_get_insert_all by apply items_sorted_nil.
    cbn [items_get]. apply items_get_perm; assumption.
Qed.

(** ** 3. the emitter is a function of the (path, item tokens) list *)
Lemma mapM_Forall2_ext {A A' B} (R : A -> A' -> Prop) (f : A -> result B) (g : A' -> result B) l1 l2 :
  (forall a b, R a b -> f a = g b) -> Forall2 R l1 l2 -> mapM f l1 = mapM g l2.
Proof.
  intros Hfg H. induction H as [|a b l1 l2 Hab _ IH]; [reflexivity|].
  cbn [mapM]. rewrite (Hfg a b Hab), IH. reflexivity.
Qed.

Section EmitExt.
  Variable s : settings.

  (** entries with the same remaining path and the same item tokens *)
  Definition entry_rel (e1 e2 : entry) : Prop :=
    fst e1 = fst e2 /\ type_ir_tokens s (snd (snd e1)) = type_ir_tokens s (snd (snd e2)).

  Lemma child_names_ext es1 es2 :
    Forall2 entry_rel es1 es2 -> child_names es1 = child_names es2.
  Proof.
    intros H. induction H as [|e1 e2 l1 l2 [Hf _] _ IH]; [reflexivity|].
    unfold child_names in *. cbn [fold_right]. rewrite Hf, IH. reflexivity.
  Qed.

  Lemma under_ext h es1 es2 :
    Forall2 entry_rel es1 es2 -> Forall2 entry_rel (under h es1) (under h es2).
  Proof.
    intros H. induction H as [|[p1 x1] [p2 x2] l1 l2 [Hf Ht] _ IH]; [constructor|].
    cbn [fst snd] in Hf, Ht. subst p2.
    unfold under in *. cbn [flat_map fst snd].
    destruct p1 as [|h' [|h'' tl]]; cbn [app]; try exact IH.
    destruct (String.eqb h h'); cbn [app]; [|exact IH].
    constructor; [|exact IH]. split; cbn [fst snd]; [reflexivity|exact Ht].
  Qed.

  Lemma here_ext es1 es2 :
    Forall2 entry_rel es1 es2 -> Forall2 entry_rel (here es1) (here es2).
  Proof.
    intros H. induction H as [|[p1 x1] [p2 x2] l1 l2 [Hf Ht] _ IH]; [constructor|].
    cbn [fst snd] in Hf, Ht. subst p2.
    unfold here in *. cbn [filter fst].
    destruct p1 as [|h' [|h'' tl]]; try exact IH.
    constructor; [|exact IH]. split; cbn [fst snd]; [reflexivity|exact Ht].
  Qed.

  Lemma module_tokens_S fuel name es :
    module_tokens s (S fuel) name es =
    let* mods := mapM (fun h => module_tokens s fuel h (under h es)) (child_names es) in
    let* tys := mapM (A:=entry) (fun e : entry => type_ir_tokens s (snd (snd e))) (here es) in
    Ok (["pub"; "mod"; name; "{"; "use"; "super"; ":"; ":"; s_root s; ";"]%string ++
        List.concat mods ++ List.concat tys ++ ["}"%string]).
  Proof. reflexivity. Qed.

  Lemma module_tokens_ext : forall fuel name es1 es2,
    Forall2 entry_rel es1 es2 -> module_tokens s fuel name es1 = module_tokens s fuel name es2.
  Proof.
    induction fuel as [|fuel IH]; intros name es1 es2 H; [reflexivity|].
    rewrite !module_tokens_S.
    rewrite (child_names_ext _ _ H).
    rewrite (mapM_ext (fun h => module_tokens s fuel h (under h es1))
                      (fun h => module_tokens s fuel h (under h es2)) (child_names es2)).
    2:{ intros h _. apply IH. apply under_ext; exact H. }
    rewrite (mapM_Forall2_ext entry_rel
               (fun e : entry => type_ir_tokens s (snd (snd e)))
               (fun e : entry => type_ir_tokens s (snd (snd e))) (here es1) (here es2)).
    - reflexivity.
    - intros a b [_ Hab]; exact Hab.
    - apply here_ext; exact H.
  Qed.

  Lemma max_depth_ext (m1 m2 : items) :
    Forall2 (fun e1 e2 => fst e1 = fst e2) m1 m2 -> max_depth m1 = max_depth m2.
  Proof.
    intros H. induction H as [|e1 e2 l1 l2 Hf _ IH]; [reflexivity|].
    unfold max_depth in *. cbn [fold_right]. rewrite Hf, IH. reflexivity.
  Qed.

  Theorem emit_module_ext (m1 m2 : items) :
    Forall2 (fun e1 e2 => fst e1 = fst e2 /\
                          type_ir_tokens s (snd (snd e1)) = type_ir_tokens s (snd (snd e2))) m1 m2 ->
    emit_module s m1 = emit_module s m2.
  Proof.
    intros H. unfold emit_module.
    rewrite (max_depth_ext m1 m2).
    2:{ induction H as [|e1 e2 l1 l2 [Hf _] _ IH]; constructor; assumption. }
    apply module_tokens_ext.
    induction H as [|e1 e2 l1 l2 [Hf Ht] _ IH]; cbn [map]; constructor; [|exact IH].
    split; cbn [fst snd]; assumption.
  Qed.
End EmitExt.
