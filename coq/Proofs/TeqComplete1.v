(** Completeness of [types_equal] on two instantiations of one definition (fragment
    [teq_def_okb]) on REAL registries ([RegistryOf1], Model/Program1.v): Proofs/TeqComplete.v with
    the one-step identity.

    Every pair of ids [(x, y)] the algorithm compares is the pair of ids of the closed instances of
    ONE open source term [c] under the two argument lists: [L x = Some (cs1 args1 c)],
    [L y = Some (cs1 args2 c)] with [cs1 A c = ident1 (subst_src A c)].  The field types of the
    fragment are plain (no Box / VecDeque), so [ident1] acts on an instance only when [c] is a
    parameter (the ARGUMENTS are as written and may carry boxes); below the top the instances are
    compared as written ([inj_raw]).  The two instantiations themselves may be entries registered
    for a boxed form ([peel1 l = SApp d args]). *)
From Coq Require Import List NArith String Bool Lia Arith.
From V Require Import Base.Util Base.Strings Base.Result Model.Registry Model.Settings Model.Subst
  Model.TypePath Model.Derives Model.Generate Model.Equal Model.WellFormed Model.Shape
  Model.Program Model.ProgramSkel Model.ProgramTeq Model.Program1
  Proofs.GenProofs Proofs.ResolveTotal Proofs.GenTotal Proofs.CollectProofs Proofs.SourceRoundTrip Proofs.SourceSkeleton
  Proofs.FidelityGen Proofs.KeepFirst Proofs.DedupProofs Proofs.TeqComplete
  Proofs.Ident1 Proofs.SourceRoundTrip1 Proofs.SourceSkeleton1.
Import ListNotations.
Open Scope string_scope. Open Scope list_scope.

Lemma cs1_closed a1 a2 c : closed_src c = true -> cs1 a1 c = cs1 a2 c.
Proof. intros H. unfold cs1. rewrite !subst_closed by exact H. reflexivity. Qed.

(** on a plain term that is no parameter the identity step does nothing *)
Lemma cs1_plain A c : plain_src c = true -> is_param c = false -> cs1 A c = subst_src A c.
Proof. intros Hp Hq. destruct c; try discriminate Hp; try discriminate Hq; reflexivity. Qed.

Lemma unbox_size : forall t, (src_size (unbox t) <= src_size t)%nat.
Proof.
  induction t; cbn [unbox]; try apply le_n.
  change (src_size (SBox t)) with (S (src_size t)). lia.
Qed.

Lemma peel1_size t : (src_size (peel1 t) <= src_size t)%nat.
Proof.
  unfold peel1. pose proof (unbox_size t) as H. destruct (unbox t); try exact H.
Qed.

Lemma ident1_size t : (src_size (ident1 t) <= src_size t)%nat.
Proof.
  destruct t; cbn [ident1]; try apply le_n.
  destruct (identity_moves t); [apply le_n|]. change (src_size (SBox t)) with (S (src_size t)). lia.
Qed.

Lemma other_head1 A c c' :
  plain_src c = true -> spine_head c = false -> is_param c = false ->
  spine_head c' = true -> subst_src A c <> subst_src A c'.
Proof.
  intros Hp Hs Hpa Hs'. destruct c; try discriminate; destruct c'; try discriminate;
    cbn [subst_src]; discriminate.
Qed.

(** ** the instances under one argument list determine the open term (up to its instances under
    any other argument list) *)
Section Inj1.
  Variable pl : list (string * bool).
  Variables A B : list src.
  Hypothesis HdistA : forall i j ni nj a b,
    nth_error pl i = Some (ni, false) -> nth_error A i = Some a ->
    nth_error pl j = Some (nj, false) -> nth_error A j = Some b -> ident1 a = ident1 b -> i = j.
  Hypothesis HlenA : List.length A = List.length pl.

  Definition goodA1 (c : src) : Prop :=
    forall K, In K (spine c) -> is_param K = false -> ~ In (cs1 A K) (liveL (map ident1 A) pl).

  Lemma sb_param i nm : nth_error pl i = Some (nm, false) ->
    exists a, nth_error A i = Some a /\ subst_src A (SParam i) = a /\ In (ident1 a) (liveL (map ident1 A) pl).
  Proof.
    intros Hi. destruct (nth_error A i) as [a|] eqn:Ea.
    - exists a. split; [reflexivity|]. split; [|eapply liveL_In; [exact Hi|apply map_nth_error; exact Ea]].
      cbn [subst_src]. apply (nth_error_nth A i _ Ea).
    - apply nth_error_None in Ea. assert (i < List.length pl)%nat by (apply nth_error_Some; congruence). lia.
  Qed.

  Lemma inj_raw : forall n c c',
    (src_size c <= n)%nat ->
    teq_frag c = true -> plain_src c = true -> teq_frag c' = true -> plain_src c' = true ->
    goodA1 c -> goodA1 c' -> liveP pl c -> liveP pl c' ->
    subst_src A c = subst_src A c' -> subst_src B c = subst_src B c'.
  Proof.
    induction n as [|n IH]; intros c c' Hs Hf Hp Hf' Hp' Hg Hg' Hl Hl' H;
      [destruct c; cbn [src_size] in Hs; lia|].
    destruct (is_param c) eqn:Epc.
    { destruct c as [i| | | | | | | | | | | | | | |]; try discriminate Epc.
      destruct (Hl i (spine_self _)) as (nm & Hi). destruct (sb_param i nm Hi) as (a & Ha & Hca & Hlive).
      destruct (is_param c') eqn:Epc'.
      - destruct c' as [j| | | | | | | | | | | | | | |]; try discriminate Epc'.
        destruct (Hl' j (spine_self _)) as (nm' & Hj). destruct (sb_param j nm' Hj) as (a' & Ha' & Hca' & _).
        assert (i = j) by (eapply (HdistA i j nm nm' a a'); eauto; congruence). subst j. reflexivity.
      - exfalso. apply (Hg' c' (spine_self _) Epc'). unfold cs1. rewrite <- H, Hca. exact Hlive. }
    destruct (is_param c') eqn:Epc'.
    { destruct c' as [j| | | | | | | | | | | | | | |]; try discriminate Epc'.
      destruct (Hl' j (spine_self _)) as (nm' & Hj). destruct (sb_param j nm' Hj) as (a' & Ha' & Hca' & Hlive).
      exfalso. apply (Hg c (spine_self _) Epc). unfold cs1. rewrite H, Hca'. exact Hlive. }
    destruct (spine_head c) eqn:Esh; destruct (spine_head c') eqn:Esh'.
    - destruct c; try discriminate Esh; destruct c'; try discriminate Esh';
        cbn [subst_src] in H; try discriminate H.
      + (* Vec *) injection H as H. cbn [subst_src]. f_equal.
        cbn [src_size] in Hs. cbn [plain_src] in Hp, Hp'.
        apply (IH c c'); try assumption; try lia; try (apply frag_vec; assumption).
        * intros K HK. apply Hg. right. exact HK.
        * intros K HK. apply Hg'. right. exact HK.
        * intros i Hi. apply Hl. right. exact Hi.
        * intros i Hi. apply Hl'. right. exact Hi.
      + (* Array *) injection H as Hn H. cbn [subst_src]. f_equal; [exact Hn|].
        cbn [src_size] in Hs. cbn [plain_src] in Hp, Hp'.
        apply (IH c c'); try assumption; try lia; try (eapply frag_arr; eassumption).
        * intros K HK. apply Hg. right. exact HK.
        * intros K HK. apply Hg'. right. exact HK.
        * intros i Hi. apply Hl. right. exact Hi.
        * intros i Hi. apply Hl'. right. exact Hi.
      + (* Tup *) change (sb A (STup ts) = sb A (STup ts0)) in H. change (sb B (STup ts) = sb B (STup ts0)).
        rewrite !sb_tup in H |- *.
        injection H as H. f_equal.
        change (S (sizes ts) <= S n)%nat in Hs. cbn [plain_src] in Hp, Hp'.
        rewrite forallb_forall in Hp, Hp'. pose proof (frag_tup _ Hf) as Hfx. pose proof (frag_tup _ Hf') as Hfx'.
        assert (Hgx : forall x, In x ts -> goodA1 x /\ liveP pl x).
        { intros x Hx. split.
          - intros K HK. apply Hg. right. apply in_flat_map. exists x. split; assumption.
          - intros i Hi. apply Hl. right. apply in_flat_map. exists x. split; assumption. }
        assert (Hgx' : forall x, In x ts0 -> goodA1 x /\ liveP pl x).
        { intros x Hx. split.
          - intros K HK. apply Hg'. right. apply in_flat_map. exists x. split; assumption.
          - intros i Hi. apply Hl'. right. apply in_flat_map. exists x. split; assumption. }
        assert (Hsz : forall x, In x ts -> (src_size x <= n)%nat) by (intros x Hx; pose proof (sizes_In _ _ Hx); lia).
        clear Hs Hg Hg' Hl Hl' Hf Hf' Esh Esh' Epc Epc'.
        revert ts0 H Hp' Hfx' Hgx'. induction ts as [|x ts IHts]; intros ts0 H Hp' Hfx' Hgx'.
        * destruct ts0; [reflexivity|discriminate H].
        * destruct ts0 as [|x' ts0]; [discriminate H|]. cbn [map] in H |- *. injection H as Hx Hrest. f_equal.
          -- apply (IH x x'); auto using in_eq; try (apply Hgx; left; reflexivity); try (apply Hgx'; left; reflexivity).
          -- apply IHts; auto using in_cons.
      + (* Compact *) injection H as H. cbn [subst_src]. f_equal.
        cbn [src_size] in Hs. cbn [plain_src] in Hp, Hp'.
        apply (IH c c'); try assumption; try lia; try (apply frag_compact; assumption).
        * intros K HK. apply Hg. right. exact HK.
        * intros K HK. apply Hg'. right. exact HK.
        * intros i Hi. apply Hl. right. exact Hi.
        * intros i Hi. apply Hl'. right. exact Hi.
      + (* Option *) injection H as H. cbn [subst_src]. f_equal.
        cbn [src_size] in Hs. cbn [plain_src] in Hp, Hp'.
        apply (IH c c'); try assumption; try lia; try (apply frag_opt; assumption).
        * intros K HK. apply Hg. right. exact HK.
        * intros K HK. apply Hg'. right. exact HK.
        * intros i Hi. apply Hl. right. exact Hi.
        * intros i Hi. apply Hl'. right. exact Hi.
      + (* Result *) injection H as Ha Hb. cbn [subst_src].
        cbn [src_size] in Hs. cbn [plain_src] in Hp, Hp'.
        apply andb_prop in Hp as [Hp1 Hp2]. apply andb_prop in Hp' as [Hp1' Hp2'].
        destruct (frag_res _ _ Hf) as [Hf1 Hf2]. destruct (frag_res _ _ Hf') as [Hf1' Hf2'].
        f_equal.
        * apply (IH c1 c'1); try assumption; try lia.
          -- intros K HK. apply Hg. right. apply in_or_app. left. exact HK.
          -- intros K HK. apply Hg'. right. apply in_or_app. left. exact HK.
          -- intros i Hi. apply Hl. right. apply in_or_app. left. exact Hi.
          -- intros i Hi. apply Hl'. right. apply in_or_app. left. exact Hi.
        * apply (IH c2 c'2); try assumption; try lia.
          -- intros K HK. apply Hg. right. apply in_or_app. right. exact HK.
          -- intros K HK. apply Hg'. right. apply in_or_app. right. exact HK.
          -- intros i Hi. apply Hl. right. apply in_or_app. right. exact Hi.
          -- intros i Hi. apply Hl'. right. apply in_or_app. right. exact Hi.
      + (* Cow *) injection H as H. cbn [subst_src]. f_equal.
        cbn [src_size] in Hs. cbn [plain_src] in Hp, Hp'.
        apply (IH c c'); try assumption; try lia; try (apply frag_cow; assumption).
        * intros K HK. apply Hg. right. exact HK.
        * intros K HK. apply Hg'. right. exact HK.
        * intros i Hi. apply Hl. right. exact Hi.
        * intros i Hi. apply Hl'. right. exact Hi.
      + (* Range *) injection H as H. cbn [subst_src]. f_equal.
        cbn [src_size] in Hs. cbn [plain_src] in Hp, Hp'.
        apply (IH c c'); try assumption; try lia; try (apply frag_range; assumption).
        * intros K HK. apply Hg. right. exact HK.
        * intros K HK. apply Hg'. right. exact HK.
        * intros i Hi. apply Hl. right. exact Hi.
        * intros i Hi. apply Hl'. right. exact Hi.
    - exfalso. symmetry in H. revert H. apply other_head1; assumption.
    - exfalso. revert H. apply other_head1; assumption.
    - rewrite (subst_closed B c (frag_other c Hf Esh Epc)), (subst_closed B c' (frag_other c' Hf' Esh' Epc')).
      rewrite (subst_closed A c (frag_other c Hf Esh Epc)), (subst_closed A c' (frag_other c' Hf' Esh' Epc')) in H. exact H.
  Qed.

  Lemma inj1_n c c' :
    teq_frag c = true -> plain_src c = true -> teq_frag c' = true -> plain_src c' = true ->
    goodA1 c -> goodA1 c' -> liveP pl c -> liveP pl c' ->
    cs1 A c = cs1 A c' -> cs1 B c = cs1 B c'.
  Proof.
    intros Hf Hp Hf' Hp' Hg Hg' Hl Hl' H.
    destruct (is_param c) eqn:Epc.
    { destruct c as [i| | | | | | | | | | | | | | |]; try discriminate Epc.
      destruct (Hl i (spine_self _)) as (nm & Hi). destruct (sb_param i nm Hi) as (a & Ha & Hca & Hlive).
      destruct (is_param c') eqn:Epc'.
      - destruct c' as [j| | | | | | | | | | | | | | |]; try discriminate Epc'.
        destruct (Hl' j (spine_self _)) as (nm' & Hj). destruct (sb_param j nm' Hj) as (a' & Ha' & Hca' & _).
        unfold cs1 in H. rewrite Hca, Hca' in H.
        assert (i = j) by (eapply (HdistA i j nm nm' a a'); eauto). subst j. reflexivity.
      - exfalso. apply (Hg' c' (spine_self _) Epc'). rewrite <- H. unfold cs1. rewrite Hca. exact Hlive. }
    destruct (is_param c') eqn:Epc'.
    { destruct c' as [j| | | | | | | | | | | | | | |]; try discriminate Epc'.
      destruct (Hl' j (spine_self _)) as (nm' & Hj). destruct (sb_param j nm' Hj) as (a' & Ha' & Hca' & Hlive).
      exfalso. apply (Hg c (spine_self _) Epc). rewrite H. unfold cs1. rewrite Hca'. exact Hlive. }
    rewrite !cs1_plain in H |- * by assumption.
    exact (inj_raw (src_size c) c c' (le_n _) Hf Hp Hf' Hp' Hg Hg' Hl Hl' H).
  Qed.
End Inj1.

(** ** one direction of "seen on the left iff seen on the right" *)
Lemma seen_dir1 defs (L : N -> option src) r (pl : list (string * bool)) (A B : list src) d idA idB lA cl xs ys c x y :
  RegistryOf1 defs L r ->
  (forall i j ni nj a b, nth_error pl i = Some (ni, false) -> nth_error A i = Some a ->
                         nth_error pl j = Some (nj, false) -> nth_error A j = Some b -> ident1 a = ident1 b -> i = j) ->
  List.length A = List.length pl ->
  L idA = Some lA -> peel1 lA = SApp d A ->
  Forall2 (fun c x => L x = Some (cs1 A c)) cl xs ->
  Forall2 (fun c y => L y = Some (cs1 B c)) cl ys ->
  Forall (fun c => teq_frag c = true /\ plain_src c = true /\ goodA1 pl A c /\ liveP pl c) cl ->
  teq_frag c = true -> plain_src c = true -> goodA1 pl A c -> liveP pl c ->
  L x = Some (cs1 A c) -> L y = Some (cs1 B c) -> x <> y ->
  In x (xs ++ [idA]) -> In y (ys ++ [idB]).
Proof.
  intros HR Hdist Hlen HlA HpA H1 H2 Hcl Hf Hp Hg Hlv Hx Hy Hne Hin.
  destruct HR as (_ & _ & Hinj).
  apply in_app_or in Hin as [Hin|[<-|[]]].
  - apply in_or_app. left.
    destruct (Forall2_In_both _ _ _ _ _ _ H1 H2 Hin) as (c' & y' & Hc' & Hxc' & Hyc' & Hy').
    rewrite Forall_forall in Hcl. destruct (Hcl c' Hc') as (Hf' & Hp' & Hg' & Hlv').
    assert (E : cs1 A c' = cs1 A c) by congruence.
    pose proof (inj1_n pl A B Hdist Hlen c' c Hf' Hp' Hf Hp Hg' Hg Hlv' Hlv E) as E2.
    assert (y' = y) by (apply (Hinj y' y (cs1 B c)); congruence). subst y'. exact Hy'.
  - exfalso. assert (E : cs1 A c = lA) by congruence.
    assert (Hsz : (S (sizes A) <= src_size lA)%nat).
    { pose proof (peel1_size lA) as Hs. rewrite HpA, src_size_app in Hs. exact Hs. }
    destruct (frag_cases c Hf Hp) as [c Hc|i|c0 _ _|n c0 _ _|c0 _ _|ts _ _|c0 _ _|a0 b0 _ _ _ _|c0 _ _|c0 _ _].
    + apply Hne. apply (Hinj idA y (cs1 B c)); [rewrite (cs1_closed B A c Hc); exact Hx|exact Hy].
    + destruct (Hlv i (spine_self _)) as (nm & Hi).
      destruct (sb_param pl A Hlen i nm Hi) as (a & Ha & Hca & _).
      unfold cs1 in E. rewrite Hca in E. pose proof (ident1_size a) as Hi1. rewrite E in Hi1.
      pose proof (sizes_In _ _ (nth_error_In _ _ Ha)). lia.
    + rewrite <- E in HpA. unfold cs1 in HpA. cbn [subst_src ident1 peel1 unbox] in HpA. discriminate HpA.
    + rewrite <- E in HpA. unfold cs1 in HpA. cbn [subst_src ident1 peel1 unbox] in HpA. discriminate HpA.
    + rewrite <- E in HpA. unfold cs1 in HpA. cbn [subst_src ident1 peel1 unbox] in HpA. discriminate HpA.
    + rewrite <- E in HpA. unfold cs1 in HpA. cbn [subst_src ident1 peel1 unbox] in HpA. discriminate HpA.
    + rewrite <- E in HpA. unfold cs1 in HpA. cbn [subst_src ident1 peel1 unbox] in HpA. discriminate HpA.
    + rewrite <- E in HpA. unfold cs1 in HpA. cbn [subst_src ident1 peel1 unbox] in HpA. discriminate HpA.
    + rewrite <- E in HpA. unfold cs1 in HpA. cbn [subst_src ident1 peel1 unbox] in HpA. discriminate HpA.
    + rewrite <- E in HpA. unfold cs1 in HpA. cbn [subst_src ident1 peel1 unbox] in HpA. discriminate HpA.
Qed.

Section Sim1.
  Variable defs : list sdef.
  Variable L : N -> option src.
  Variable r : registry.
  Hypothesis HR : RegistryOf1 defs L r.
  Variable d : nat.
  Variable sd : sdef.
  Hypothesis Hsd : nth_error defs d = Some sd.
  Hypothesis Hprog : teq_program_okb sd = true.
  Variables args1 args2 : list src.
  Hypothesis Hcf1 : instantiation_cf1 defs sd args1 = true.
  Hypothesis Hcf2 : instantiation_cf1 defs sd args2 = true.
  Variables id1 id2 : N.
  Variables l1 l2 : src.
  Variables t1 t2 : ty.
  Hypothesis Hl1 : L id1 = Some l1.
  Hypothesis Hl2 : L id2 = Some l2.
  Hypothesis Hp1 : peel1 l1 = SApp d args1.
  Hypothesis Hp2 : peel1 l2 = SApp d args2.
  Hypothesis He1 : content_of1 defs L r (SApp d args1) t1.
  Hypothesis He2 : content_of1 defs L r (SApp d args2) t2.
  Hypothesis Hr1 : resolve r id1 = Some t1.
  Hypothesis Hr2 : resolve r id2 = Some t2.

  Let pl := sd_params sd.
  Let P1 := params_from_scale_info (t_params t1).
  Let P2 := params_from_scale_info (t_params t2).
  Let pnames := map fst (sd_params sd).

  Lemma L_inj1' i j c : L i = Some c -> L j = Some c -> i = j.
  Proof. exact (L_inj1 defs L r HR i j c). Qed.

  Lemma len1' : List.length args1 = List.length pl.
  Proof. destruct (ent_inv1 defs L r d sd args1 Hsd t1 He1) as (_ & H & _). exact H. Qed.
  Lemma len2' : List.length args2 = List.length pl.
  Proof. destruct (ent_inv1 defs L r d sd args2 Hsd t2 He2) as (_ & H & _). exact H. Qed.
  Definition dist1' := args_dist1 defs sd args1 Hcf1.
  Definition dist2' := args_dist1 defs sd args2 Hcf2.

  (** what the invariant says about an open term *)
  Definition PP1 (c : src) : Prop :=
    teq_frag c = true /\ plain_src c = true /\ goodA1 pl args1 c /\ goodA1 pl args2 c /\ liveP pl c.

  Lemma field_PP1 sf : In sf (def_sfields sd) ->
    PP1 (sf_ty sf) /\ sf_compact_attr sf = false.
  Proof.
    intros Hin. unfold teq_program_okb, teq_def_okb in Hprog. apply andb_prop in Hprog as [H1 H2].
    rewrite forallb_forall in H1, H2. pose proof (H1 sf Hin) as Hf. pose proof (H2 sf Hin) as Hlive.
    unfold teq_field_okb in Hf. apply andb_prop in Hf as [Hf Hfr]. apply andb_prop in Hf as [Hca Hpl].
    apply negb_true_iff in Hca.
    assert (Hft : In (sf_ty sf) (def_field_types sd)).
    { unfold def_field_types. unfold def_sfields in Hin. destruct (sd_body sd) as [fs|vs].
      - apply in_map. exact Hin.
      - apply in_flat_map in Hin as (v & Hv & Hin). apply in_flat_map. exists v. split; [exact Hv|apply in_map; exact Hin]. }
    assert (Hgood : forall args, instantiation_cf1 defs sd args = true -> goodA1 pl args (sf_ty sf)).
    { intros args Hcf K HK Hp Hlive'.
      destruct (cf1_inv _ _ _ Hcf) as (_ & _ & Hcomp).
      destruct (Hcomp _ Hft) as (_ & Hnl).
      exact (Hnl K (spine_components defs (src_size (sf_ty sf)) (sf_ty sf) (le_n _) K HK) Hp _ Hlive' eq_refl). }
    split; [|assumption].
    split; [exact Hfr|]. split; [exact Hpl|]. split; [apply Hgood; assumption|]. split; [apply Hgood; assumption|].
    intros i Hi. pose proof (params_live_spine pl (src_size (sf_ty sf)) (sf_ty sf) (le_n _) Hlive _ Hi) as Hli.
    cbn [params_live] in Hli. destruct (nth_error pl i) as [[nm [|]]|]; try discriminate. eauto.
  Qed.

  (** the two parameter frames bind the same positions and names to the ids of the respective arguments *)
  Definition Rp1 (p1 p2 : tparam_ir) : Prop :=
    exists i nm a1 a2,
      nth_error pl i = Some (nm, false) /\ nth_error args1 i = Some a1 /\ nth_error args2 i = Some a2 /\
      L (tpi_id p1) = Some (ident1 a1) /\ L (tpi_id p2) = Some (ident1 a2) /\ tpi_orig p1 = nm /\ tpi_orig p2 = nm.

  Lemma P_paired1 : Forall2 Rp1 P1 P2.
  Proof.
    destruct (parents_facts1 defs L r d sd args1 Hsd t1 He1) as (Ha1 & _ & Hi1).
    destruct (parents_facts1 defs L r d sd args2 Hsd t2 He2) as (Ha2 & _ & Hi2).
    fold P1 in Ha1, Hi1. fold P2 in Ha2, Hi2.
    assert (H : Forall2 (fun p1 p2 => tpi_idx p1 = tpi_idx p2) P1 P2) by (apply map_eq_Forall2_inv; congruence).
    eapply Forall2_impl_In2; [exact H|]. intros p1 p2 Hp1' Hp2' Hidx. cbv beta in Hidx.
    destruct (Ha1 p1 Hp1') as (i & nm & a1 & Hi & Hx1 & Hix1 & Ho1 & Hla1).
    destruct (Ha2 p2 Hp2') as (i' & nm' & a2 & Hi' & Hx2 & Hix2 & Ho2 & Hla2).
    assert (i' = i) by (apply Nat2N.inj; congruence). subst i'.
    fold pl in Hi, Hi'. assert (nm' = nm) by congruence. subst nm'.
    exists i, nm, a1, a2. repeat split; assumption.
  Qed.

  Lemma pos_none_good1 c x :
    goodA1 pl args1 c -> is_param c = false -> L x = Some (cs1 args1 c) ->
    position (fun p => N.eqb (tpi_id p) x) P1 = None.
  Proof.
    intros Hg Hp Hx. apply position_none. intros p Hpin.
    destruct (parents_facts1 defs L r d sd args1 Hsd t1 He1) as (Ha1 & _ & _). fold P1 in Ha1.
    destruct (Ha1 p Hpin) as (i & nm & a & Hi & Ha & _ & _ & Hla).
    destruct (N.eqb (tpi_id p) x) eqn:E; [|reflexivity]. apply N.eqb_eq in E. exfalso.
    apply (Hg c (spine_self _) Hp). assert (E' : cs1 args1 c = ident1 a) by congruence. rewrite E'.
    eapply liveL_In; [exact Hi|apply map_nth_error; exact Ha].
  Qed.

  Lemma pos_pair1 i nm x y :
    nth_error pl i = Some (nm, false) -> L x = Some (cs1 args1 (SParam i)) -> L y = Some (cs1 args2 (SParam i)) ->
    exists k, position (fun p => N.eqb (tpi_id p) x) P1 = Some k /\
              position (fun p => N.eqb (tpi_id p) y) P2 = Some k /\
              position (fun p => String.eqb (tpi_orig p) nm) P1 = position (fun p => String.eqb (tpi_orig p) nm) P2 /\
              exists k', position (fun p => String.eqb (tpi_orig p) nm) P1 = Some k'.
  Proof.
    intros Hi Hx Hy.
    destruct (sb_param pl args1 len1' i nm Hi) as (a1 & Ha1 & Hc1 & _).
    destruct (sb_param pl args2 len2' i nm Hi) as (a2 & Ha2 & Hc2 & _).
    unfold cs1 in Hx, Hy. rewrite Hc1 in Hx. rewrite Hc2 in Hy.
    destruct (parents_facts1 defs L r d sd args1 Hsd t1 He1) as (_ & Hb1 & _). fold P1 in Hb1.
    destruct (Hb1 i nm a1 Hi Ha1) as (p & Hp & _ & Hpo & Hpl).
    assert (tpi_id p = x) by (eapply L_inj1'; eauto).
    destruct (position_some (fun p => N.eqb (tpi_id p) x) P1 p Hp) as (k & Hk); [apply N.eqb_eq; assumption|].
    destruct (position_some (fun p => String.eqb (tpi_orig p) nm) P1 p Hp) as (k' & Hk'); [apply String.eqb_eq; assumption|].
    assert (Eid : position (fun p => N.eqb (tpi_id p) x) P1 = position (fun p => N.eqb (tpi_id p) y) P2).
    { apply (position_Forall2 Rp1); [exact P_paired1|]. intros p1 p2 _ _ (j & nj & b1 & b2 & Hj & Hb1' & Hb2' & Hlp1 & Hlp2 & _ & _).
      destruct (N.eqb (tpi_id p1) x) eqn:E1; destruct (N.eqb (tpi_id p2) y) eqn:E2; try reflexivity; exfalso.
      - apply N.eqb_eq in E1. apply N.eqb_neq in E2. apply E2.
        assert (Eb : ident1 b1 = ident1 a1) by congruence.
        assert (j = i) by (eapply (dist1' j i nj nm b1 a1); eauto). subst j.
        assert (b2 = a2) by congruence. subst b2. eapply L_inj1'; eauto.
      - apply N.eqb_eq in E2. apply N.eqb_neq in E1. apply E1.
        assert (Eb : ident1 b2 = ident1 a2) by congruence.
        assert (j = i) by (eapply (dist2' j i nj nm b2 a2); eauto). subst j.
        assert (b1 = a1) by congruence. subst b1. eapply L_inj1'; eauto. }
    assert (Enm : position (fun p => String.eqb (tpi_orig p) nm) P1 = position (fun p => String.eqb (tpi_orig p) nm) P2).
    { apply (position_Forall2 Rp1); [exact P_paired1|]. intros p1 p2 _ _ (j & nj & b1 & b2 & _ & _ & _ & _ & _ & Ho1 & Ho2).
      rewrite Ho1, Ho2. reflexivity. }
    exists k. split; [exact Hk|]. split; [rewrite <- Eid; exact Hk|]. split; [exact Enm|]. exists k'. exact Hk'.
  Qed.

  (** ** the visited sets: instances of one list of open terms, above the two instantiations *)
  Definition Inv1 (st : vstate) : Prop :=
    exists cl xs ys, fst st = xs ++ [id1] /\ snd st = ys ++ [id2] /\
      Forall2 (fun c x => L x = Some (cs1 args1 c)) cl xs /\
      Forall2 (fun c y => L y = Some (cs1 args2 c)) cl ys /\
      Forall PP1 cl.

  Lemma seen_eq1 st c x y :
    Inv1 st -> PP1 c -> L x = Some (cs1 args1 c) -> L y = Some (cs1 args2 c) -> x <> y ->
    mem_N x (fst st) = mem_N y (snd st).
  Proof.
    intros (cl & xs & ys & Hf & Hs & H1 & H2 & Hcl) (Hfr & Hpl & Hg1 & Hg2 & Hlv) Hx Hy Hne.
    apply eq_true_iff_eq. rewrite !CollectProofs.mem_N_In, Hf, Hs. split.
    - apply (seen_dir1 defs L r pl args1 args2 d id1 id2 l1 cl xs ys c x y HR dist1' len1' Hl1 Hp1 H1 H2); auto.
      eapply Forall_impl; [|exact Hcl]. intros c' (A & B & C & _ & E). auto.
    - apply (seen_dir1 defs L r pl args2 args1 d id2 id1 l2 cl ys xs c y x HR dist2' len2' Hl2 Hp2 H2 H1); auto.
      eapply Forall_impl; [|exact Hcl]. intros c' (A & B & _ & C & E). auto.
  Qed.

  Definition good_res1 (st : vstate) (res : result (bool * vstate)) : Prop :=
    exists st', res = Ok (true, st') /\ Inv1 st' /\ vgood r st' /\ (List.length (fst st) <= List.length (fst st'))%nat.

  Lemma good_res1_refl st : Inv1 st -> vgood r st -> good_res1 st (Ok (true, st)).
  Proof. intros HI Hv. exists st. split; [reflexivity|]. split; [exact HI|]. split; [exact Hv|]. apply le_n. Qed.

  Lemma labelled_in_reg1 x c : L x = Some c -> in_reg r x.
  Proof. intros H. destruct (entry1 defs L r HR x c H) as (t & Ht & _). eapply resolve_some_in_reg; eauto. Qed.

  Lemma PP1_sub c c0 :
    PP1 c -> (forall K, In K (spine c0) -> In K (spine c)) -> teq_frag c0 = true -> plain_src c0 = true -> PP1 c0.
  Proof.
    intros (_ & _ & Hg1 & Hg2 & Hlv) Hsub Hf Hp. split; [exact Hf|]. split; [exact Hp|].
    split; [intros K HK; apply Hg1; auto|]. split; [intros K HK; apply Hg2; auto|]. intros i Hi. apply Hlv. auto.
  Qed.

  Lemma inj12' c c' : PP1 c -> PP1 c' -> cs1 args1 c = cs1 args1 c' -> cs1 args2 c = cs1 args2 c'.
  Proof.
    intros (Hf & Hp & Hg1 & _ & Hl) (Hf' & Hp' & Hg1' & _ & Hl') H.
    exact (inj1_n pl args1 args2 dist1' len1' c c' Hf Hp Hf' Hp' Hg1 Hg1' Hl Hl' H).
  Qed.
  Lemma inj21' c c' : PP1 c -> PP1 c' -> cs1 args2 c = cs1 args2 c' -> cs1 args1 c = cs1 args1 c'.
  Proof.
    intros (Hf & Hp & _ & Hg2 & Hl) (Hf' & Hp' & _ & Hg2' & Hl') H.
    exact (inj1_n pl args2 args1 dist2' len2' c c' Hf Hp Hf' Hp' Hg2 Hg2' Hl Hl' H).
  Qed.

  Definition Re1 (e1 e2 : N * string) : Prop :=
    snd e1 = snd e2 /\ exists c, PP1 c /\ L (fst e1) = Some (cs1 args1 c) /\ L (fst e2) = Some (cs1 args2 c).
  Definition Rf1 (f1 f2 : frame) : Prop := fst f1 = fst f2 /\ Forall2 Re1 (snd f1) (snd f2).
  Definition AL1 (g1 g2 : glist) : Prop :=
    Forall2 Rf1 g1 g2 /\ forall p, In p P1 -> index_for_type_id g1 (tpi_id p) <> None.

  Lemma Re1_match e1 e2 c x y :
    Re1 e1 e2 -> PP1 c -> L x = Some (cs1 args1 c) -> L y = Some (cs1 args2 c) ->
    N.eqb (fst e1) x = N.eqb (fst e2) y.
  Proof.
    intros (_ & c' & HPP' & H1 & H2) HPP Hx Hy.
    destruct (N.eqb (fst e1) x) eqn:E1; destruct (N.eqb (fst e2) y) eqn:E2; try reflexivity; exfalso.
    - apply N.eqb_eq in E1. apply N.eqb_neq in E2. apply E2. subst x.
      assert (H : cs1 args1 c' = cs1 args1 c) by congruence. apply (inj12' c' c HPP' HPP) in H.
      apply (L_inj1' (fst e2) y (cs1 args2 c)); [rewrite <- H; exact H2|exact Hy].
    - apply N.eqb_eq in E2. apply N.eqb_neq in E1. apply E1. subst y.
      assert (H : cs1 args2 c' = cs1 args2 c) by congruence. apply (inj21' c' c HPP' HPP) in H.
      apply (L_inj1' (fst e1) x (cs1 args1 c)); [rewrite <- H; exact H1|exact Hx].
  Qed.

  Lemma idx_AL1 g1 g2 c x y :
    Forall2 Rf1 g1 g2 -> PP1 c -> L x = Some (cs1 args1 c) -> L y = Some (cs1 args2 c) ->
    index_for_type_id g1 x = index_for_type_id g2 y.
  Proof.
    intros H HPP Hx Hy. induction H as [|[s1 en1] [s2 en2] g1 g2 (Hs & Hen) _ IH]; [reflexivity|].
    cbn [fst snd] in Hs, Hen. subst s2. cbn [index_for_type_id].
    rewrite (position_Forall2 Re1 (fun e => N.eqb (fst e) x) (fun e => N.eqb (fst e) y) en1 en2 Hen
               (fun a b _ _ Hab => Re1_match a b c x y Hab HPP Hx Hy)), IH.
    reflexivity.
  Qed.

  Lemma PP1_param i nm : nth_error pl i = Some (nm, false) -> PP1 (SParam i).
  Proof.
    intros Hi. split; [reflexivity|]. split; [reflexivity|].
    split; [intros K [<-|[]] Hp; discriminate Hp|]. split; [intros K [<-|[]] Hp; discriminate Hp|].
    intros j [E|[]]. inversion E; subst j. eauto.
  Qed.

  Lemma extend_start1 g1 g2 tps1 tps2 :
    Forall2 Rf1 g1 g2 ->
    exists s0, glist_extend g1 tps1 =
               (s0, flat_map (fun p => match tp_ty p with Some i => [(i, tp_name p)] | None => [] end) tps1) :: g1 /\
               glist_extend g2 tps2 =
               (s0, flat_map (fun p => match tp_ty p with Some i => [(i, tp_name p)] | None => [] end) tps2) :: g2.
  Proof.
    intros H. unfold glist_extend. destruct H as [|[s1 en1] [s2 en2] g1 g2 (Hs & Hen) _].
    - exists 0%nat. split; reflexivity.
    - cbn [fst snd] in Hs, Hen. subst s2. rewrite (F2_length _ _ _ Hen). eexists. split; reflexivity.
  Qed.

  Lemma AL1_extend g1 g2 tps1 tps2 :
    AL1 g1 g2 ->
    Forall2 Re1 (flat_map (fun p => match tp_ty p with Some i => [(i, tp_name p)] | None => [] end) tps1)
                (flat_map (fun p => match tp_ty p with Some i => [(i, tp_name p)] | None => [] end) tps2) ->
    AL1 (glist_extend g1 tps1) (glist_extend g2 tps2).
  Proof.
    intros (HF & Hown) Hen. destruct (extend_start1 g1 g2 tps1 tps2 HF) as (s0 & -> & ->). split.
    - constructor; [split; [reflexivity|exact Hen]|exact HF].
    - intros p Hp. cbn [index_for_type_id]. destruct (position _ _); [discriminate|]. apply Hown. exact Hp.
  Qed.

  Lemma AL1_extend_nil g1 g2 : AL1 g1 g2 -> AL1 (glist_extend g1 []) (glist_extend g2 []).
  Proof. intros H. apply AL1_extend; [exact H|constructor]. Qed.

  Lemma AL1_base : AL1 [(0%nat, Eof P1); (0%nat, [])] [(0%nat, Eof P2); (0%nat, [])].
  Proof.
    split.
    - constructor; [|constructor; [split; [reflexivity|constructor]|constructor]].
      split; [reflexivity|]. cbn [snd]. unfold Eof. apply Forall2_map_both.
      eapply Forall2_impl; [|exact P_paired1]. intros p1 p2 (i & nm & a1 & a2 & Hi & Ha1 & Ha2 & Hl1' & Hl2' & Ho1 & Ho2).
      split; [cbn [snd]; congruence|]. exists (SParam i). split; [eapply PP1_param; eauto|]. cbn [fst].
      destruct (sb_param pl args1 len1' i nm Hi) as (b1 & Hb1 & Hc1 & _).
      destruct (sb_param pl args2 len2' i nm Hi) as (b2 & Hb2 & Hc2 & _).
      unfold cs1. rewrite Hc1, Hc2. split; congruence.
    - intros p Hp. cbn [index_for_type_id]. unfold Eof. rewrite position_map. cbn [fst].
      destruct (position_some (fun p0 => N.eqb (tpi_id p0) (tpi_id p)) P1 p Hp (N.eqb_refl _)) as (k & ->). discriminate.
  Qed.

  Lemma own_idx1 g1 g2 i nm x :
    AL1 g1 g2 -> nth_error pl i = Some (nm, false) -> L x = Some (cs1 args1 (SParam i)) -> index_for_type_id g1 x <> None.
  Proof.
    intros (_ & Hown) Hi Hx.
    destruct (sb_param pl args1 len1' i nm Hi) as (a1 & Ha1 & Hc1 & _). unfold cs1 in Hx. rewrite Hc1 in Hx.
    destruct (parents_facts1 defs L r d sd args1 Hsd t1 He1) as (_ & Hb1 & _). fold P1 in Hb1.
    destruct (Hb1 i nm a1 Hi Ha1) as (p & Hp & _ & _ & Hpl).
    assert (tpi_id p = x) by (eapply L_inj1'; eauto). subst x. apply Hown. exact Hp.
  Qed.

  (** the content of the entry of an instance *)
  Lemma entry_cs1 A c x : L x = Some (cs1 A c) ->
    exists t, resolve r x = Some t /\ content_of1 defs L r (peel1 (subst_src A c)) t.
  Proof.
    intros H. destruct (entry1 defs L r HR x _ H) as (t & Hr & He). unfold cs1 in He. rewrite peel1_ident1 in He. eauto.
  Qed.

  (** the simulation: comparing the instances of one open term of the fragment answers "equal" *)
  Lemma sim1 : forall n c, (src_size c <= n)%nat -> PP1 c ->
    forall fuel x y g1 g2 st, AL1 g1 g2 ->
    L x = Some (cs1 args1 c) -> L y = Some (cs1 args2 c) ->
    Inv1 st -> vgood r st -> (List.length r + 1 <= fuel + List.length (fst st))%nat ->
    good_res1 st (teq r fuel x g1 y g2 st).
  Proof.
    induction n as [|n IH]; intros c Hs HPP fuel x y g1 g2 st HAL Hx Hy HI Hv Hfu;
      [destruct c; cbn [src_size] in Hs; lia|].
    destruct fuel as [|fuel]. { destruct Hv as [Hv _]. pose proof (good_length _ _ Hv). lia. }
    destruct st as [va vb]. cbn [fst snd] in *.
    rewrite teq_S. destruct (N.eqb x y) eqn:Exy.
    { apply good_res1_refl; assumption. }
    apply N.eqb_neq in Exy. cbv zeta. cbn [fst snd].
    pose proof (seen_eq1 (va, vb) c x y HI HPP Hx Hy Exy) as Hseen. cbn [fst snd] in Hseen.
    destruct (mem_N x va) eqn:Ea; destruct (mem_N y vb) eqn:Eb; try discriminate Hseen; cbn [negb Bool.eqb andb].
    { apply good_res1_refl; assumption. }
    (* both unseen: the pair is recorded *)
    assert (HI1 : Inv1 (x :: va, y :: vb)).
    { destruct HI as (cl & xs & ys & Hf & Hsn & H1 & H2 & Hcl). cbn [fst snd] in Hf, Hsn.
      exists (c :: cl), (x :: xs), (y :: ys). cbn [fst snd]. rewrite Hf, Hsn.
      repeat split; try reflexivity; constructor; assumption. }
    assert (Hv1 : vgood r (x :: va, y :: vb)).
    { destruct Hv as [Hva Hvb]. cbn [fst snd] in Hva, Hvb. split; cbn [fst snd]; apply good_cons; try assumption;
        eapply labelled_in_reg1; eauto. }
    assert (Hfu1 : (List.length r + 1 <= fuel + List.length (x :: va))%nat) by (cbn [List.length]; lia).
    assert (Hweak : forall res, good_res1 (x :: va, y :: vb) res -> good_res1 (va, vb) res).
    { intros res (st' & Hres & A & B & C). exists st'. split; [exact Hres|]. split; [exact A|]. split; [exact B|].
      cbn [fst List.length] in C |- *. lia. }
    destruct (entry_cs1 args1 c x Hx) as (tx & Hrx & Hex). destruct (entry_cs1 args2 c y Hy) as (ty & Hry & Hey).
    rewrite Hrx, Hry. rewrite <- (idx_AL1 g1 g2 c x y (proj1 HAL) HPP Hx Hy).
    destruct (index_for_type_id g1 x) as [k|] eqn:Ek.
    { (* found at the same index on both sides *)
      cbn [opt_nat_eqb]. rewrite Nat.eqb_refl. apply Hweak. apply good_res1_refl; assumption. }
    cbn [opt_nat_eqb].
    pose proof HPP as (Hfr & Hpl & Hgd1 & Hgd2 & Hlv).
    assert (Hbuiltin : forall t0 t0' d0 d0', builtin t0 d0 -> builtin t0' d0' ->
              negb (path_eqb (t_path t0) (t_path t0')) = false /\
              negb (Nat.eqb (List.length (param_ids t0)) (List.length (param_ids t0'))) = false /\
              glist_extend g1 (t_params t0) = glist_extend g1 [] /\ glist_extend g2 (t_params t0') = glist_extend g2 []).
    { intros t0 t0' d0 d0' (Hp & Hps & _) (Hp' & Hps' & _). rewrite !param_ids_eq, Hp, Hp', Hps, Hps'. auto. }
    assert (Hpre : forall nm e1 e2 c0, t_path tx = [nm] -> t_path ty = [nm] ->
              forall pn, t_params tx = [mk_tparam pn (Some e1)] -> t_params ty = [mk_tparam pn (Some e2)] ->
              PP1 c0 -> L e1 = Some (cs1 args1 c0) -> L e2 = Some (cs1 args2 c0) ->
              negb (path_eqb (t_path tx) (t_path ty)) = false /\
              negb (Nat.eqb (List.length (param_ids tx)) (List.length (param_ids ty))) = false /\
              AL1 (glist_extend g1 (t_params tx)) (glist_extend g2 (t_params ty)) /\
              exists s0, glist_extend g1 (t_params tx) = (s0, [(e1, pn)]) :: g1 /\
                         glist_extend g2 (t_params ty) = (s0, [(e2, pn)]) :: g2).
    { intros nm e1 e2 c0 Hp Hp' pn Hps Hps' HPP0 Hl1' Hl2'. rewrite !param_ids_eq, Hp, Hp', Hps, Hps', path_eqb_refl.
      split; [reflexivity|]. split; [reflexivity|]. split.
      - apply AL1_extend; [exact HAL|]. cbn [flat_map tp_ty tp_name app]. constructor; [|constructor].
        split; [reflexivity|]. exists c0. auto.
      - destruct (extend_start1 g1 g2 [mk_tparam pn (Some e1)] [mk_tparam pn (Some e2)] (proj1 HAL)) as (s0 & E1 & E2).
        exists s0. split; assumption. }
    destruct (frag_cases c Hfr Hpl)
      as [c Hc|i|c0 Hf0 Hp0|len c0 Hf0 Hp0|c0 Hf0 Hp0|ts Hf0 Hp0|c0 Hf0 Hp0|ca cb Hfa Hfb Hpa Hpb|c0 Hf0 Hp0|c0 Hf0 Hp0].
    - exfalso. apply Exy. apply (L_inj1' x y (cs1 args2 c)); [rewrite (cs1_closed args2 args1 c Hc)|]; assumption.
    - exfalso. destruct (Hlv i (spine_self _)) as (nm & Hi). exact (own_idx1 g1 g2 i nm x HAL Hi Hx Ek).
    - cbn [subst_src peel1 unbox content_of1] in Hex, Hey.
      destruct Hex as (e1 & Hb1 & Hle1). destruct Hey as (e2 & Hb2 & Hle2).
      destruct (Hbuiltin _ _ _ _ Hb1 Hb2) as (E1 & E2 & E3 & E4). rewrite E1, E2, E3, E4.
      unfold teq_def. destruct Hb1 as (_ & _ & ->). destruct Hb2 as (_ & _ & ->).
      apply Hweak. cbn [src_size] in Hs.
      apply (IH c0); auto using AL1_extend_nil; try lia.
      apply (PP1_sub (SVec c0)); auto. intros K HK. right. exact HK.
    - cbn [subst_src peel1 unbox content_of1] in Hex, Hey.
      destruct Hex as (e1 & Hb1 & Hle1). destruct Hey as (e2 & Hb2 & Hle2).
      destruct (Hbuiltin _ _ _ _ Hb1 Hb2) as (E1 & E2 & E3 & E4). rewrite E1, E2, E3, E4.
      unfold teq_def. destruct Hb1 as (_ & _ & ->). destruct Hb2 as (_ & _ & ->). rewrite N.eqb_refl.
      apply Hweak. cbn [src_size] in Hs.
      apply (IH c0); auto using AL1_extend_nil; try lia.
      apply (PP1_sub (SArray len c0)); auto. intros K HK. right. exact HK.
    - cbn [subst_src peel1 unbox content_of1] in Hex, Hey.
      destruct Hex as (e1 & Hb1 & Hle1). destruct Hey as (e2 & Hb2 & Hle2).
      destruct (Hbuiltin _ _ _ _ Hb1 Hb2) as (E1 & E2 & E3 & E4). rewrite E1, E2, E3, E4.
      unfold teq_def. destruct Hb1 as (_ & _ & ->). destruct Hb2 as (_ & _ & ->).
      apply Hweak. cbn [src_size] in Hs.
      apply (IH c0); auto using AL1_extend_nil; try lia.
      apply (PP1_sub (SCompactT c0)); auto. intros K HK. right. exact HK.
    - change (subst_src args1 (STup ts)) with (sb args1 (STup ts)) in Hex.
      change (subst_src args2 (STup ts)) with (sb args2 (STup ts)) in Hey.
      rewrite sb_tup in Hex, Hey. cbn [peel1 unbox content_of1] in Hex, Hey.
      destruct Hex as (es1 & Hb1 & Hle1). destruct Hey as (es2 & Hb2 & Hle2).
      destruct (Hbuiltin _ _ _ _ Hb1 Hb2) as (E1 & E2 & E3 & E4). rewrite E1, E2, E3, E4.
      unfold teq_def. destruct Hb1 as (_ & _ & ->). destruct Hb2 as (_ & _ & ->).
      assert (Hlen : List.length es1 = List.length es2).
      { rewrite (F2_length _ _ _ Hle1), (F2_length _ _ _ Hle2), !map_length. reflexivity. }
      rewrite Hlen, Nat.eqb_refl. cbn [negb].
      apply Hweak. change (S (sizes ts) <= S n)%nat in Hs.
      rewrite forallb_forall in Hf0, Hp0.
      assert (Hts : forall c0, In c0 ts -> (src_size c0 <= n)%nat /\ PP1 c0).
      { intros c0 Hc0. split; [pose proof (sizes_In _ _ Hc0); lia|].
        apply (PP1_sub (STup ts)); auto. intros K HK. right. apply in_flat_map. exists c0. split; assumption. }
      generalize (AL1_extend_nil g1 g2 HAL).
      generalize (glist_extend g1 []) (glist_extend g2 []). intros g1' g2' HAL'.
      assert (Hfu1' : (List.length r + 1 <= fuel + List.length (fst (x :: va, y :: vb)))%nat) by exact Hfu1.
      clear - IH Hts Hle1 Hle2 HI1 Hv1 Hfu1' HAL'. rename Hfu1' into Hfu1.
      revert es1 es2 Hle1 Hle2 HI1 Hv1 Hfu1. generalize (x :: va, y :: vb) as st.
      induction ts as [|c0 ts IHts]; intros st es1 es2 Hle1 Hle2 HI1 Hv1 Hfu1.
      + inversion Hle1; subst. inversion Hle2; subst. cbn [all2]. apply good_res1_refl; assumption.
      + cbn [map] in Hle1, Hle2. inversion Hle1 as [|e1 ? es1' ? He1' Hr1']; subst.
        inversion Hle2 as [|e2 ? es2' ? He2' Hr2']; subst. cbn [all2].
        destruct (Hts c0 (or_introl eq_refl)) as (Hsz0 & HPP0).
        destruct (IH c0 Hsz0 HPP0 fuel e1 e2 g1' g2' st HAL' He1' He2' HI1 Hv1 Hfu1) as (st' & Hres & A & B & C).
        rewrite Hres. cbn [bind fst snd].
        destruct (IHts (fun c' Hc' => Hts c' (or_intror Hc')) st' es1' es2' Hr1' Hr2' A B) as (st'' & Hres' & A' & B' & C'); [lia|].
        exists st''. split; [exact Hres'|]. split; [exact A'|]. split; [exact B'|]. lia.
    - (* Option *)
      cbn [subst_src peel1 unbox content_of1] in Hex, Hey.
      destruct Hex as (e1 & Hle1 & Hp1' & Hps1 & Hd1). destruct Hey as (e2 & Hle2 & Hp2' & Hps2 & Hd2).
      assert (HPP0 : PP1 c0) by (apply (PP1_sub (SOpt c0)); auto; intros K HK; right; exact HK).
      destruct (Hpre _ e1 e2 c0 Hp1' Hp2' _ Hps1 Hps2 HPP0 Hle1 Hle2) as (E1 & E2 & HAL' & _). rewrite E1, E2.
      apply Hweak. cbn [src_size] in Hs.
      destruct (IH c0 ltac:(lia) HPP0 fuel e1 e2 _ _ (x :: va, y :: vb) HAL' Hle1 Hle2 HI1 Hv1 Hfu1) as (st' & Hres & A & B & C).
      exists st'. split; [|auto]. eapply opt_def; eauto.
    - (* Result *)
      cbn [subst_src peel1 unbox content_of1] in Hex, Hey.
      destruct Hex as (x1 & y1 & Hlx1 & Hly1 & Hp1' & Hps1 & Hd1). destruct Hey as (x2 & y2 & Hlx2 & Hly2 & Hp2' & Hps2 & Hd2).
      assert (HPPa : PP1 ca) by (apply (PP1_sub (SRes ca cb)); auto; intros K HK; right; apply in_or_app; left; exact HK).
      assert (HPPb : PP1 cb) by (apply (PP1_sub (SRes ca cb)); auto; intros K HK; right; apply in_or_app; right; exact HK).
      rewrite Hp1', Hp2', path_eqb_refl, !param_ids_eq, Hps1, Hps2. cbn [flat_map tp_ty app List.length Nat.eqb negb].
      assert (HAL' : AL1 (glist_extend g1 [mk_tparam "T" (Some x1); mk_tparam "E" (Some y1)])
                         (glist_extend g2 [mk_tparam "T" (Some x2); mk_tparam "E" (Some y2)])).
      { apply AL1_extend; [exact HAL|]. cbn [flat_map tp_ty tp_name app].
        constructor; [split; [reflexivity|exists ca; auto]|constructor; [split; [reflexivity|exists cb; auto]|constructor]]. }
      apply Hweak. cbn [src_size] in Hs.
      destruct (IH ca ltac:(lia) HPPa fuel x1 x2 _ _ (x :: va, y :: vb) HAL' Hlx1 Hlx2 HI1 Hv1 Hfu1) as (st1 & Hres1 & A1 & B1 & C1).
      cbn [fst List.length] in C1, Hfu1.
      destruct (IH cb ltac:(lia) HPPb fuel y1 y2 _ _ st1 HAL' Hly1 Hly2 A1 B1) as (st2 & Hres2 & A2 & B2 & C2); [lia|].
      exists st2. split; [eapply res_def; eauto|]. split; [exact A2|]. split; [exact B2|cbn [fst List.length]; lia].
    - (* Cow *)
      cbn [subst_src peel1 unbox content_of1] in Hex, Hey.
      destruct Hex as (e1 & Hle1 & Hp1' & Hps1 & Hd1). destruct Hey as (e2 & Hle2 & Hp2' & Hps2 & Hd2).
      assert (HPP0 : PP1 c0) by (apply (PP1_sub (SCow c0)); auto; intros K HK; right; exact HK).
      destruct (Hpre _ e1 e2 c0 Hp1' Hp2' _ Hps1 Hps2 HPP0 Hle1 Hle2) as (E1 & E2 & HAL' & _). rewrite E1, E2.
      apply Hweak. cbn [src_size] in Hs.
      destruct (IH c0 ltac:(lia) HPP0 fuel e1 e2 _ _ (x :: va, y :: vb) HAL' Hle1 Hle2 HI1 Hv1 Hfu1) as (st' & Hres & A & B & C).
      exists st'. split; [|auto]. eapply cow_def; eauto.
    - (* Range: decided by the recorded name "Idx" of both fields *)
      cbn [subst_src peel1 unbox content_of1] in Hex, Hey.
      destruct Hex as (e1 & Hle1 & Hp1' & Hps1 & Hd1). destruct Hey as (e2 & Hle2 & Hp2' & Hps2 & Hd2).
      assert (HPP0 : PP1 c0) by (apply (PP1_sub (SRange c0)); auto; intros K HK; right; exact HK).
      destruct (Hpre _ e1 e2 c0 Hp1' Hp2' _ Hps1 Hps2 HPP0 Hle1 Hle2) as (E1 & E2 & _ & s0 & G1' & G2'). rewrite E1, E2, G1', G2'.
      apply Hweak. rewrite (range_def _ s0 g1 g2 tx ty e1 e2 _ Hd1 Hd2). apply good_res1_refl; assumption.
  Qed.

  (** ** the fields of the two entries *)
  Let G1 : glist := [(0%nat, Eof P1); (0%nat, [])].
  Let G2 : glist := [(0%nat, Eof P2); (0%nat, [])].

  Definition fuel_ok1 (fuel : nat) (st : vstate) : Prop := (List.length r + 1 <= fuel + List.length (fst st))%nat.

  Lemma sim1_field fuel sf f1 f2 st :
    In sf (def_sfields sd) ->
    field_of1 defs L pnames args1 sf f1 -> field_of1 defs L pnames args2 sf f2 ->
    Inv1 st -> vgood r st -> fuel_ok1 fuel st ->
    good_res1 st (compare_fields_with (fun x y st0 => teq r fuel x G1 y G2 st0) G1 G2 f1 f2 st).
  Proof.
    intros Hin (Hn1 & Hlab1 & Htn1) (Hn2 & Hlab2 & Htn2) HI Hv Hfu.
    destruct (field_PP1 sf Hin) as (HPP & Hca).
    unfold lab1 in Hlab1, Hlab2. rewrite Hca in Hlab1, Hlab2. cbv zeta in Hlab1, Hlab2.
    change (L (f_ty f1) = Some (cs1 args1 (sf_ty sf))) in Hlab1.
    change (L (f_ty f2) = Some (cs1 args2 (sf_ty sf))) in Hlab2.
    unfold compare_fields_with. rewrite Hn1, Hn2, opt_str_eqb_refl. cbn [negb]. cbv zeta. rewrite Htn1, Htn2.
    destruct (sf_type_name sf).
    2:{ (* no recorded type name: always compared structurally *)
        apply (sim1 (src_size (sf_ty sf)) (sf_ty sf) (le_n _) HPP fuel (f_ty f1) (f_ty f2)); auto using AL1_base. }
    unfold G1, G2. rewrite (idx_GL _ P1 _ (GL_base P1)), (idx_GL _ P2 _ (GL_base P2)).
    destruct (is_param (sf_ty sf)) eqn:Ep.
    - destruct (sf_ty sf) as [i| | | | | | | | | | | | | | |] eqn:Ety; try discriminate Ep.
      destruct HPP as (_ & _ & _ & _ & Hlv). destruct (Hlv i (spine_self _)) as (nm & Hi).
      destruct (pos_pair1 i nm _ _ Hi Hlab1 Hlab2) as (k & Hk1 & Hk2 & Enm & k' & Hk').
      rewrite Hk1, Hk2, !name_idx. cbn [render]. unfold pnames. rewrite (nth_map_fst _ _ _ _ _ Hi).
      rewrite <- Enm, Hk'. cbn [opt_nat_eqb]. rewrite Nat.eqb_refl. apply good_res1_refl; assumption.
    - pose proof HPP as (_ & _ & Hgd1 & _).
      rewrite (pos_none_good1 _ _ Hgd1 Ep Hlab1).
      apply (sim1 (src_size (sf_ty sf)) (sf_ty sf) (le_n _) HPP fuel (f_ty f1) (f_ty f2)); auto using AL1_base.
  Qed.

  Lemma sim1_fields fuel : forall fs fl1 fl2 st,
    (forall sf, In sf fs -> In sf (def_sfields sd)) ->
    Forall2 (field_of1 defs L pnames args1) fs fl1 -> Forall2 (field_of1 defs L pnames args2) fs fl2 ->
    Inv1 st -> vgood r st -> fuel_ok1 fuel st ->
    good_res1 st (fields_equal_with (fun x y st0 => teq r fuel x G1 y G2 st0) G1 G2 fl1 fl2 st).
  Proof.
    intros fs fl1 fl2 st Hin H1 H2 HI Hv Hfu. unfold fields_equal_with.
    rewrite <- (F2_length _ _ _ H1), <- (F2_length _ _ _ H2), Nat.eqb_refl. cbn [negb].
    revert fl1 fl2 st H1 H2 HI Hv Hfu. induction fs as [|sf fs IH]; intros fl1 fl2 st H1 H2 HI Hv Hfu.
    - inversion H1; subst. inversion H2; subst. cbn [all2]. apply good_res1_refl; assumption.
    - inversion H1 as [|? f1 ? fl1' Hf1 Hr1']; subst. inversion H2 as [|? f2 ? fl2' Hf2 Hr2']; subst. cbn [all2].
      destruct (sim1_field fuel sf f1 f2 st (Hin sf (or_introl eq_refl)) Hf1 Hf2 HI Hv Hfu) as (st' & Hres & A & B & C).
      rewrite Hres. cbn [bind fst snd].
      destruct (IH (fun sf' H => Hin sf' (or_intror H)) fl1' fl2' st' Hr1' Hr2' A B) as (st'' & Hres' & A' & B' & C').
      { unfold fuel_ok1 in *. lia. }
      exists st''. split; [exact Hres'|]. split; [exact A'|]. split; [exact B'|]. lia.
  Qed.

  (** the two instantiations are judged equal *)
  Theorem teq_instantiations1 : types_equal_res r id1 id2 = Ok true.
  Proof.
    unfold types_equal_res. rewrite teq_S. destruct (N.eqb id1 id2); [reflexivity|].
    cbv zeta. cbn [fst snd mem_N existsb negb Bool.eqb andb]. rewrite Hr1, Hr2.
    unfold glist_empty at 1 2. cbn [index_for_type_id position opt_nat_eqb].
    destruct (ent_inv1 defs L r d sd args1 Hsd t1 He1) as (Hpa1 & _ & _ & Hb1).
    destruct (ent_inv1 defs L r d sd args2 Hsd t2 He2) as (Hpa2 & _ & _ & Hb2).
    fold pnames in Hb1, Hb2.
    rewrite Hpa1, Hpa2, path_eqb_refl. cbn [negb]. rewrite !params_len. fold P1 P2.
    rewrite (F2_length _ _ _ P_paired1), Nat.eqb_refl. cbn [negb].
    assert (EG1 : glist_extend glist_empty (t_params t1) = G1).
    { unfold glist_extend, glist_empty. rewrite extend_entries. reflexivity. }
    assert (EG2 : glist_extend glist_empty (t_params t2) = G2).
    { unfold glist_extend, glist_empty. rewrite extend_entries. reflexivity. }
    rewrite EG1, EG2.
    set (st0 := ([id1], [id2]) : vstate).
    assert (HI0 : Inv1 st0).
    { exists [], [], []. repeat split; constructor. }
    assert (Hv0 : vgood r st0).
    { split; cbn [fst snd]; (apply good_cons; [apply good_nil| |reflexivity]); eapply labelled_in_reg1; eauto. }
    assert (Hfu0 : fuel_ok1 (S (List.length r)) st0) by (unfold fuel_ok1; cbn [st0 fst List.length]; lia).
    unfold teq_def. unfold def_sfields in *.
    destruct (sd_body sd) as [fs|vs] eqn:Eb.
    - destruct Hb1 as (fl1 & -> & Hf1). destruct Hb2 as (fl2 & -> & Hf2).
      destruct (sim1_fields (S (List.length r)) fs fl1 fl2 st0) as (st' & Hres & _); auto.
      { intros sf Hsf. unfold def_sfields. rewrite Eb. exact Hsf. }
      rewrite Hres. reflexivity.
    - destruct Hb1 as (vl1 & -> & Hv1). destruct Hb2 as (vl2 & -> & Hv2).
      rewrite <- (F2_length _ _ _ Hv1), <- (F2_length _ _ _ Hv2), Nat.eqb_refl. cbn [negb].
      assert (Hall : forall vs' vl1' vl2' st,
                (forall v, In v vs' -> In v vs) ->
                Forall2 (fun (v : string * N * list sfield) (vr : variant) =>
                           v_name vr = fst (fst v) /\ v_index vr = snd (fst v) /\
                           Forall2 (field_of1 defs L pnames args1) (snd v) (v_fields vr)) vs' vl1' ->
                Forall2 (fun (v : string * N * list sfield) (vr : variant) =>
                           v_name vr = fst (fst v) /\ v_index vr = snd (fst v) /\
                           Forall2 (field_of1 defs L pnames args2) (snd v) (v_fields vr)) vs' vl2' ->
                Inv1 st -> vgood r st -> fuel_ok1 (S (List.length r)) st ->
                good_res1 st
                  (all2 (fun x y st1 =>
                           if String.eqb (v_name x) (v_name y) && N.eqb (v_index x) (v_index y)
                           then fields_equal_with (fun x0 y0 st2 => teq r (S (List.length r)) x0 G1 y0 G2 st2) G1 G2
                                                  (v_fields x) (v_fields y) st1
                           else Ok (false, st1)) vl1' vl2' st)).
      { induction vs' as [|v vs' IH]; intros vl1' vl2' st Hin H1 H2 HI Hv Hfu.
        - inversion H1; subst. inversion H2; subst. cbn [all2]. apply good_res1_refl; assumption.
        - inversion H1 as [|? x ? vl1'' (Hn1 & Hi1 & Hfx) Hr1']; subst.
          inversion H2 as [|? y ? vl2'' (Hn2 & Hi2 & Hfy) Hr2']; subst. cbn [all2].
          rewrite Hn1, Hn2, Hi1, Hi2, String.eqb_refl, N.eqb_refl. cbn [andb].
          destruct (sim1_fields (S (List.length r)) (snd v) (v_fields x) (v_fields y) st) as (st' & Hres & A & B & C); auto.
          { intros sf Hsf. unfold def_sfields. rewrite Eb. apply in_flat_map. exists v.
            split; [apply Hin; left; reflexivity|exact Hsf]. }
          rewrite Hres. cbn [bind fst snd].
          destruct (IH vl1'' vl2'' st' (fun v' H => Hin v' (or_intror H)) Hr1' Hr2' A B) as (st'' & Hres' & A' & B' & C').
          { unfold fuel_ok1 in *. lia. }
          exists st''. split; [exact Hres'|]. split; [exact A'|]. split; [exact B'|]. lia. }
      destruct (Hall vs vl1 vl2 st0 (fun v H => H) Hv1 Hv2 HI0 Hv0 Hfu0) as (st' & Hres & _).
      rewrite Hres. reflexivity.
  Qed.
End Sim1.

(** two coincidence-free instantiations of a definition of the fragment - whatever boxes the
    labels of their entries carry - are judged equal *)
Theorem teq_instantiations_labels1 defs L r :
  RegistryOf1 defs L r ->
  forall d sd, nth_error defs d = Some sd -> teq_program_okb sd = true ->
  forall args1 args2,
  instantiation_cf1 defs sd args1 = true -> instantiation_cf1 defs sd args2 = true ->
  forall id1 id2 l1 l2, L id1 = Some l1 -> L id2 = Some l2 ->
  peel1 l1 = SApp d args1 -> peel1 l2 = SApp d args2 ->
  types_equal_res r id1 id2 = Ok true.
Proof.
  intros HR d sd Hsd Hok args1 args2 Hcf1 Hcf2 id1 id2 l1 l2 Hl1 Hl2 Hp1 Hp2.
  destruct (entry1 defs L r HR id1 _ Hl1) as (t1 & Hr1 & He1). rewrite Hp1 in He1.
  destruct (entry1 defs L r HR id2 _ Hl2) as (t2 & Hr2 & He2). rewrite Hp2 in He2.
  exact (teq_instantiations1 defs L r HR d sd Hsd Hok args1 args2 Hcf1 Hcf2 id1 id2 l1 l2 t1 t2 Hl1 Hl2 Hp1 Hp2 He1 He2 Hr1 Hr2).
Qed.

(** ** generation does not fail with DuplicateTypePath on REAL program registries of the fragment *)
Section ProgramGenerates1.
  Variable defs : list sdef.
  Variable L : N -> option src.
  Variable r : registry.
  Variable s : settings.
  Hypothesis HR : RegistryOf1 defs L r.
  Hypothesis Hids : ids_consistent r = true.
  Hypothesis Hdefs : forall sd, In sd defs -> teq_program_okb sd = true /\ forall lsb, sd_path sd <> order_path_of lsb.
  Hypothesis Hpaths : forall d1 d2 sd1 sd2,
    nth_error defs d1 = Some sd1 -> nth_error defs d2 = Some sd2 -> sd_path sd1 = sd_path sd2 -> d1 = d2.
  Hypothesis Hinst : forall id c d args sd,
    L id = Some c -> peel1 c = SApp d args -> nth_error defs d = Some sd ->
    instantiation_cf1 defs sd args = true.

  Lemma eligible_label1 id X :
    In (id, X) r -> item_eligible s X = true ->
    resolve r id = Some X /\
    ((exists c d args sd, L id = Some c /\ peel1 c = SApp d args /\ nth_error defs d = Some sd /\ t_path X = sd_path sd) \/
     (exists lsb, order_marker lsb X)).
  Proof.
    intros Hin Hel. pose proof (ids_consistent_In r id X Hids Hin) as Hres. split; [exact Hres|].
    destruct HR as (H1 & H2 & _). destruct (L id) as [c|] eqn:El.
    - left. destruct (H1 _ _ El) as (_ & t & Hr & He). rewrite Hres in Hr. inversion Hr; subst t.
      unfold entry_of1 in He.
      destruct (entry_eligible1 defs L r s _ X He Hel) as (d & args & Ec). rewrite Ec in He.
      cbn [content_of1] in He. destruct He as (sd & Hsd & Hp & _). exists c, d, args, sd. auto.
    - right. exact (H2 _ _ Hres El).
  Qed.

  Theorem program_comparisons_equal1 :
    Forall (fun c : cmp => types_equal r (fst (fst c)) (snd (fst c)) = Ok true) (comparisons r s).
  Proof.
    apply Forall_forall. intros [[id id0] p] Hc. cbn [fst snd].
    destruct (cmps_spec s r [] id id0 p Hc) as (X & X0 & Hin & Hel & _ & Hin0 & Hel0 & Hp). cbn [app] in Hin0.
    destruct (eligible_label1 id X Hin Hel) as (Hres & [(c & d & args & sd & Hl & Hc1 & Hsd & Hpx)|(lsb & Hm)]);
      destruct (eligible_label1 id0 X0 Hin0 Hel0) as (Hres0 & [(c0 & d0 & args0 & sd0 & Hl0 & Hc0 & Hsd0 & Hpx0)|(lsb0 & Hm0)]).
    - assert (d0 = d) by (apply (Hpaths d0 d sd0 sd Hsd0 Hsd); congruence). subst d0.
      assert (sd0 = sd) by congruence. subst sd0.
      destruct (Hdefs sd (nth_error_In _ _ Hsd)) as (Hok & _).
      pose proof (Hinst id c d args sd Hl Hc1 Hsd) as Hcf. pose proof (Hinst id0 c0 d args0 sd Hl0 Hc0 Hsd) as Hcf0.
      exact (teq_instantiations_labels1 defs L r HR d sd Hsd Hok args args0 Hcf Hcf0 id id0 c c0 Hl Hl0 Hc1 Hc0).
    - exfalso. destruct Hm0 as (Hpm & _). destruct (Hdefs sd (nth_error_In _ _ Hsd)) as (_ & Hno).
      apply (Hno lsb0). unfold order_path_of. congruence.
    - exfalso. destruct Hm as (Hpm & _). destruct (Hdefs sd0 (nth_error_In _ _ Hsd0)) as (_ & Hno).
      apply (Hno lsb). unfold order_path_of. congruence.
    - apply (marker_teq r id id0 X X0 lsb lsb0); auto.
  Qed.

  (** ... hence generation succeeds whenever nothing else fails ([all_ok], Proofs/KeepFirst.v) *)
  Theorem program_generates1 flat :
    flatten (s_dreg s) r = Ok flat -> all_ok r s flat r -> exists m, generate r s (types_equal r) = Ok m.
  Proof.
    intros Hf Hok. apply (generate_ok_iff r s (types_equal r) flat); [|exact Hf|exact Hok|exact program_comparisons_equal1].
    rewrite sanity_pass_spec. apply first_bad_none_iff in Hids. rewrite Hids. reflexivity.
  Qed.
End ProgramGenerates1.

(** ** [ensure_unique_type_paths] leaves REAL program registries of the fragment untouched *)
Section ProgramDedup1.
  Variable defs : list sdef.
  Variable L : N -> option src.
  Variable r : registry.
  Hypothesis HR : RegistryOf1 defs L r.
  Hypothesis Hids : ids_consistent r = true.
  Hypothesis Hdefs : forall sd, In sd defs -> teq_program_okb sd = true /\ forall lsb, sd_path sd <> order_path_of lsb.
  Hypothesis Hpaths : forall d1 d2 sd1 sd2,
    nth_error defs d1 = Some sd1 -> nth_error defs d2 = Some sd2 -> sd_path sd1 = sd_path sd2 -> d1 = d2.
  Hypothesis Hinst : forall id c d args sd,
    L id = Some c -> peel1 c = SApp d args -> nth_error defs d = Some sd ->
    instantiation_cf1 defs sd args = true.

  Lemma entry_namespaced1 c X : content_of1 defs L r c X -> namespace (t_path X) <> [] -> exists d args, c = SApp d args.
  Proof.
    intros He Hns. destruct c; cbn [content_of1] in He.
    - destruct He.
    - eauto.
    - destruct He as (e & (Hp & _) & _). rewrite Hp in Hns. cbn [namespace removelast] in Hns. congruence.
    - destruct He.
    - destruct He as (e & (Hp & _) & _). rewrite Hp in Hns. cbn [namespace removelast] in Hns. congruence.
    - destruct He as (e & (Hp & _) & _). rewrite Hp in Hns. cbn [namespace removelast] in Hns. congruence.
    - destruct He as (Hp & _). rewrite Hp in Hns. cbn [namespace removelast] in Hns. congruence.
    - destruct He as (e & (Hp & _) & _). rewrite Hp in Hns. cbn [namespace removelast] in Hns. congruence.
    - destruct He.
    - destruct He as (e & _ & Hp & _). rewrite Hp in Hns. cbn [namespace removelast] in Hns. congruence.
    - destruct He as (x & y & _ & _ & Hp & _). rewrite Hp in Hns. cbn [namespace removelast] in Hns. congruence.
    - destruct He as (ik & iv & iseq & _ & _ & _ & Hp & _). rewrite Hp in Hns. cbn [namespace removelast] in Hns. congruence.
    - destruct He as (e & iseq & _ & _ & Hp & _). rewrite Hp in Hns. cbn [namespace removelast] in Hns. congruence.
    - destruct He as (e & _ & Hp & _). rewrite Hp in Hns. cbn [namespace removelast] in Hns. congruence.
    - destruct He as (e & _ & Hp & _). rewrite Hp in Hns. cbn [namespace removelast] in Hns. congruence.
    - destruct He as (ist & io & ot & (Hp & _) & _). rewrite Hp in Hns. cbn [namespace removelast] in Hns. congruence.
  Qed.

  Lemma namespaced_label1 a X :
    resolve r a = Some X -> namespace (t_path X) <> [] ->
    (exists c d args sd, L a = Some c /\ peel1 c = SApp d args /\ nth_error defs d = Some sd /\ t_path X = sd_path sd) \/
    (exists lsb, order_marker lsb X).
  Proof.
    intros Hres Hns. destruct HR as (H1 & H2 & _). destruct (L a) as [c|] eqn:El.
    - left. destruct (H1 _ _ El) as (_ & t & Hr & He). rewrite Hres in Hr. inversion Hr; subst t.
      unfold entry_of1 in He.
      destruct (entry_namespaced1 _ X He Hns) as (d & args & Ec). rewrite Ec in He.
      cbn [content_of1] in He. destruct He as (sd & Hsd & Hp & _). exists c, d, args, sd. auto.
    - right. exact (H2 _ _ Hres El).
  Qed.

  Lemma namespaced_equal1 a b X X0 :
    resolve r a = Some X -> resolve r b = Some X0 -> namespace (t_path X) <> [] -> t_path X0 = t_path X ->
    types_equal_res r a b = Ok true.
  Proof.
    intros Ha Hb Hns Hp. assert (Hns0 : namespace (t_path X0) <> []) by (rewrite Hp; exact Hns).
    destruct (namespaced_label1 a X Ha Hns) as [(c & d & args & sd & Hl & Hc & Hsd & Hpx)|(lsb & Hm)];
      destruct (namespaced_label1 b X0 Hb Hns0) as [(c0 & d0 & args0 & sd0 & Hl0 & Hc0 & Hsd0 & Hpx0)|(lsb0 & Hm0)].
    - assert (d0 = d) by (apply (Hpaths d0 d sd0 sd Hsd0 Hsd); congruence). subst d0.
      assert (sd0 = sd) by congruence. subst sd0.
      destruct (Hdefs sd (nth_error_In _ _ Hsd)) as (Hok & _).
      pose proof (Hinst a c d args sd Hl Hc Hsd) as Hcf. pose proof (Hinst b c0 d args0 sd Hl0 Hc0 Hsd) as Hcf0.
      exact (teq_instantiations_labels1 defs L r HR d sd Hsd Hok args args0 Hcf Hcf0 a b c c0 Hl Hl0 Hc Hc0).
    - exfalso. destruct Hm0 as (Hpm & _). destruct (Hdefs sd (nth_error_In _ _ Hsd)) as (_ & Hno).
      apply (Hno lsb0). unfold order_path_of. congruence.
    - exfalso. destruct Hm as (Hpm & _). destruct (Hdefs sd0 (nth_error_In _ _ Hsd0)) as (_ & Hno).
      apply (Hno lsb). unfold order_path_of. congruence.
    - apply (marker_teq r a b X X0 lsb lsb0); auto.
  Qed.

  Lemma groups_add_inv1 idx t : forall m,
    Gm r m -> resolve r idx = Some t -> namespace (t_path t) <> [] ->
    exists m', groups_add r m (t_path t) idx = Ok m' /\ Gm r m'.
  Proof.
    intros m HG Hres Hns. induction m as [|[k gs] m IH].
    - cbn [groups_add]. eexists. split; [reflexivity|]. intros k gs [E|[]]. inversion E; subst.
      exists idx, []. split; [reflexivity|]. split; [exact Hns|]. intros i [<-|[]]. eauto.
    - cbn [groups_add]. destruct (path_eqb k (t_path t)) eqn:Ek.
      + apply path_eqb_eq in Ek. subst k.
        destruct (HG _ _ (or_introl eq_refl)) as (other & g & -> & _ & Hmem).
        cbn [add_to_groups]. destruct (Hmem other (or_introl eq_refl)) as (t0 & Hr0 & Hp0).
        rewrite (namespaced_equal1 idx other t t0 Hres Hr0 Hns Hp0). cbn [bind].
        eexists. split; [reflexivity|]. intros k gs [E|Hin].
        * inversion E; subst. exists other, (g ++ [idx]). split; [reflexivity|]. split; [exact Hns|].
          intros i Hi. change (In i ((other :: g) ++ [idx])) in Hi. apply in_app_or in Hi as [Hi|[<-|[]]]; eauto.
        * apply HG. right. exact Hin.
      + destruct IH as (m' & Hm' & HG'). { intros k' gs' Hin. apply HG. right. exact Hin. }
        rewrite Hm'. cbn [bind]. eexists. split; [reflexivity|]. intros k' gs' [E|Hin].
        * inversion E; subst. apply HG. left. reflexivity.
        * apply HG'. exact Hin.
  Qed.

  Lemma bg_go_inv1 : forall l pre m,
    r = pre ++ l -> Gm r m -> exists m', bg_go r (N.of_nat (List.length pre)) l m = Ok m' /\ Gm r m'.
  Proof.
    induction l as [|[i t] l IH]; intros pre m Hr HG; [exists m; split; [reflexivity|exact HG]|].
    cbn [bg_go].
    assert (Hres : resolve r (N.of_nat (List.length pre)) = Some t).
    { unfold resolve. rewrite Nat2N.id, Hr, nth_error_app2, Nat.sub_diag by apply le_n. reflexivity. }
    assert (Hnext : (N.of_nat (List.length pre) + 1)%N = N.of_nat (List.length (pre ++ [(i, t)]))).
    { rewrite app_length. cbn [List.length]. lia. }
    assert (Hr' : r = (pre ++ [(i, t)]) ++ l) by (rewrite <- app_assoc; exact Hr).
    destruct (namespace (t_path t)) as [|n0 ns] eqn:Ens.
    - rewrite Hnext. apply IH; assumption.
    - destruct (groups_add_inv1 _ t m HG Hres) as (m' & Hm' & HG'); [rewrite Ens; discriminate|].
      rewrite Hm'. cbn [bind]. rewrite Hnext. apply IH; assumption.
  Qed.

  Theorem program_dedup_untouched1 : ensure_unique r = Ok r.
  Proof.
    rewrite ensure_unique_unfold, dedup_sanity_spec. apply first_bad_none_iff in Hids. rewrite Hids. cbn [bind].
    rewrite build_groups_go.
    destruct (bg_go_inv1 r [] [] eq_refl) as (m & Hm & HG). { intros k gs []. }
    cbn [List.length N.of_nat] in Hm. rewrite Hm. cbn [bind]. f_equal. apply rename_pass_id.
    intros i. apply suffix_for_single. intros p gs Hin. destruct (HG _ _ Hin) as (other & g & -> & _). apply le_n.
  Qed.
End ProgramDedup1.
