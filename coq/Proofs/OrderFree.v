(** C06: the output is a function of the settings read as finite maps of finite
    sets.  [flatten] / [resolve] agree as sets on derive registries that are equal
    as maps of sets; the emitted derive lists are then equal; [generate] followed
    by [emit_module] gives equal tokens; the substitute map enters only through
    its lookups; the renaming of [ensure_unique] does not depend on the order of
    the path groups. *)
From Coq Require Import List NArith String Bool Lia Permutation.
From V Require Import Base.Strings Base.Result Model.Registry Model.Settings Model.Subst
  Model.TypePath Model.Derives Model.Generate Model.Emit Model.Equal Model.Reach
  Model.Builders Model.BuildersSpec
  Proofs.GenProofs Proofs.StringOrder Proofs.SortDedup Proofs.CollectProofs Proofs.DerivesProofs
  Proofs.BuildersProofs.
Import ListNotations.
Open Scope string_scope. Open Scope list_scope.

(** ** 1. [flatten] as sets *)

(** the recursive contribution to key [k], without any assumption on the registry *)
Definition raw_reaches (r : registry) (rc : kmap) (sel : derives -> list kt) (k : string) (x : kt)
  : Prop :=
  exists keys id kroot d ids i,
    mapM key_entry r = Ok keys /\ In (id, Some kroot) keys /\ kmap_get rc kroot = Some d /\
    collect_type_ids r id = Ok ids /\ In i ids /\ key_of_in keys i = Some k /\ In x (sel d).

Lemma flatten_uniform dr r fl :
  flatten dr r = Ok fl ->
  fl_default fl = dr_default dr /\
  forall sel, selector sel -> forall k x,
    In x (sel (smap_get_or_empty (fl_specific fl) k)) <->
    In x (sel (kmap_or_empty (dr_specific dr) k)) \/ raw_reaches r (dr_recursive dr) sel k x.
Proof.
  intros H. destruct (flatten_raw _ _ _ H) as [Hd [[Hrc Hsp]|(keys & Hk & Hcol & Hchar)]];
    (split; [exact Hd|]); intros sel Hs k x.
  - rewrite Hsp. unfold smap_get_or_empty. rewrite flat_of_specific_get.
    fold (kmap_or_empty (dr_specific dr) k). split; [auto|].
    intros [Hx|(keys & id & kroot & d & ids & i & _ & _ & Hg & _)]; [exact Hx|].
    rewrite Hrc in Hg. discriminate.
  - rewrite (Hchar sel Hs). split.
    + intros [Hx|(id & kroot & d & ids & i & H1 & H2 & H3 & H4 & H5 & H6)]; [left; exact Hx|].
      right. exists keys, id, kroot, d, ids, i. auto 10.
    + intros [Hx|(keys' & id & kroot & d & ids & i & H0 & H1 & H2 & H3 & H4 & H5 & H6)]; [left; exact Hx|].
      right. rewrite Hk in H0. inversion H0; subst keys'. exists id, kroot, d, ids, i. auto 10.
Qed.

Lemma raw_reaches_mono r rc1 rc2 sel k x :
  (forall key d1, kmap_get rc1 key = Some d1 ->
                  exists d2, kmap_get rc2 key = Some d2 /\ forall y, In y (sel d1) -> In y (sel d2)) ->
  raw_reaches r rc1 sel k x -> raw_reaches r rc2 sel k x.
Proof.
  intros Hm (keys & id & kroot & d & ids & i & H0 & H1 & H2 & H3 & H4 & H5 & H6).
  destruct (Hm _ _ H2) as (d2 & Hg & Hsub).
  exists keys, id, kroot, d2, ids, i. auto 10.
Qed.

Lemma dreg_same_sym a b : dreg_same a b -> dreg_same b a.
Proof.
  intros (H1 & H2 & H3). split; [|split].
  - intros x; symmetry; apply H1.
  - intros x; symmetry; apply H2.
  - intros key. destruct (H3 key) as (A & B & C & D & E).
    split; [symmetry; exact A|].
    split; [intros x; symmetry; apply B|]. split; [intros x; symmetry; apply C|].
    split; [intros x; symmetry; apply D|intros x; symmetry; apply E].
Qed.

Lemma dreg_same_rec_mono a b sel (Hs : selector sel) :
  dreg_same a b ->
  forall key d1, kmap_get (dr_recursive a) key = Some d1 ->
                 exists d2, kmap_get (dr_recursive b) key = Some d2 /\
                            forall y, In y (sel d1) -> In y (sel d2).
Proof.
  intros (_ & _ & H3) key d1 Hg. destruct (H3 key) as (A & _ & _ & D & E).
  destruct (kmap_get (dr_recursive b) key) as [d2|] eqn:G2.
  - exists d2. split; [reflexivity|]. unfold kmap_or_empty in D, E. rewrite Hg, G2 in D, E.
    destruct Hs as [->| ->]; intros y; [apply D|apply E].
  - rewrite (proj2 A eq_refl) in Hg. discriminate.
Qed.

Lemma dreg_same_specific a b sel (Hs : selector sel) key :
  dreg_same a b ->
  same_set (sel (kmap_or_empty (dr_specific a) key)) (sel (kmap_or_empty (dr_specific b) key)).
Proof.
  intros (_ & _ & H3). destruct (H3 key) as (_ & B & C & _ & _).
  destruct Hs as [->| ->]; assumption.
Qed.

Lemma dreg_same_default a b sel (Hs : selector sel) :
  dreg_same a b -> same_set (sel (dr_default a)) (sel (dr_default b)).
Proof. intros (H1 & H2 & _). destruct Hs as [->| ->]; assumption. Qed.

(** C06 [flatten_order_free] (set form) *)
Theorem flatten_order_free dr1 dr2 r fl1 fl2 :
  dreg_same dr1 dr2 -> flatten dr1 r = Ok fl1 -> flatten dr2 r = Ok fl2 ->
  forall sel, selector sel -> forall k,
    same_set (sel (resolve_derives fl1 k)) (sel (resolve_derives fl2 k)).
Proof.
  intros Hs H1 H2 sel Hsel k x.
  destruct (flatten_uniform _ _ _ H1) as [D1 C1]. destruct (flatten_uniform _ _ _ H2) as [D2 C2].
  rewrite !(resolve_derives_spec sel Hsel), (C1 sel Hsel), (C2 sel Hsel), D1, D2.
  pose proof (dreg_same_default _ _ sel Hsel Hs x) as E1.
  pose proof (dreg_same_specific _ _ sel Hsel k Hs x) as E2.
  pose proof (raw_reaches_mono r _ _ sel k x (dreg_same_rec_mono _ _ sel Hsel Hs)) as M1.
  pose proof (raw_reaches_mono r _ _ sel k x (dreg_same_rec_mono _ _ sel Hsel (dreg_same_sym _ _ Hs))) as M2.
  tauto.
Qed.

(** everything a flat registry hands out was registered *)
Lemma flatten_elements dr r fl sel (Hs : selector sel) k x :
  flatten dr r = Ok fl -> In x (sel (resolve_derives fl k)) -> In x (dreg_all sel dr).
Proof.
  intros H Hx. destruct (flatten_uniform _ _ _ H) as [D C].
  apply (resolve_derives_spec sel Hs) in Hx. rewrite (C sel Hs), D in Hx.
  unfold dreg_all. apply in_or_app.
  destruct Hx as [Hx|[Hx|(keys & id & kroot & d & ids & i & _ & _ & Hg & _ & _ & _ & Hx)]].
  - left; exact Hx.
  - right. unfold kmap_or_empty in Hx. destruct (kmap_get (dr_specific dr) k) as [d|] eqn:G.
    + apply kmap_get_in in G as (k0 & Hin & _). apply in_flat_map. exists (k0, d).
      split; [apply in_or_app; left; exact Hin|exact Hx].
    + rewrite (sel_empty sel Hs) in Hx. destruct Hx.
  - right. apply kmap_get_in in Hg as (k0 & Hin & _). apply in_flat_map. exists (k0, d).
    split; [apply in_or_app; right; exact Hin|exact Hx].
Qed.

Definition opt_list {A} (o : option A) : list A := match o with Some x => [x] | None => [] end.

(** well-keyed settings: a key (token string) determines the tokens, across both registries
    and the CompactAs path *)
Definition well_keyed (dr1 dr2 : derives_registry) (ca : option kt) : Prop :=
  key_functional (dreg_all d_derives dr1 ++ dreg_all d_derives dr2 ++ opt_list ca) /\
  key_functional (dreg_all d_attrs dr1 ++ dreg_all d_attrs dr2).

(** C06 [flatten_order_free] (token form): equal derive / attribute lists for every key, with
    and without the CompactAs derive *)
Theorem resolve_tokens_order_free dr1 dr2 r fl1 fl2 s1 s2 :
  dreg_same dr1 dr2 -> s_compact_as s1 = s_compact_as s2 ->
  well_keyed dr1 dr2 (s_compact_as s1) ->
  flatten dr1 r = Ok fl1 -> flatten dr2 r = Ok fl2 ->
  forall k,
    derives_tokens (resolve_derives fl1 k) = derives_tokens (resolve_derives fl2 k) /\
    derives_tokens (add_as_compact s1 (resolve_derives fl1 k)) =
    derives_tokens (add_as_compact s2 (resolve_derives fl2 k)).
Proof.
  intros Hs Hca [KD KA] H1 H2 k.
  pose proof (flatten_order_free _ _ _ _ _ Hs H1 H2) as SS.
  pose proof (fun x => flatten_elements dr1 r fl1 d_derives (or_introl eq_refl) k x H1) as E1d.
  pose proof (fun x => flatten_elements dr2 r fl2 d_derives (or_introl eq_refl) k x H2) as E2d.
  pose proof (fun x => flatten_elements dr1 r fl1 d_attrs (or_intror eq_refl) k x H1) as E1a.
  pose proof (fun x => flatten_elements dr2 r fl2 d_attrs (or_intror eq_refl) k x H2) as E2a.
  assert (KA' : key_functional (d_attrs (resolve_derives fl1 k) ++ d_attrs (resolve_derives fl2 k))).
  { eapply key_functional_sub; [|exact KA]. intros x Hx. apply in_or_app.
    apply in_app_or in Hx as [Hx|Hx]; auto. }
  split.
  - apply derives_tokens_canonical.
    + eapply key_functional_sub; [|exact KD]. intros x Hx. apply in_or_app.
      apply in_app_or in Hx as [Hx|Hx]; [left; auto|right; apply in_or_app; left; auto].
    + exact KA'.
    + apply (SS d_derives (or_introl eq_refl)).
    + apply (SS d_attrs (or_intror eq_refl)).
  - apply derives_tokens_canonical.
    + eapply key_functional_sub; [|exact KD]. intros x Hx.
      apply in_app_or in Hx as [Hx|Hx]; apply add_as_compact_derives in Hx as [Hx|Hx].
      * apply in_or_app; left; auto.
      * apply in_or_app; right; apply in_or_app; right. rewrite Hx. left; reflexivity.
      * apply in_or_app; right; apply in_or_app; left; auto.
      * apply in_or_app; right; apply in_or_app; right. rewrite Hca, Hx. left; reflexivity.
    + rewrite !add_as_compact_attrs. exact KA'.
    + intros x. rewrite !add_as_compact_derives, Hca.
      pose proof (SS d_derives (or_introl eq_refl) k x). tauto.
    + intros x. rewrite !add_as_compact_attrs. apply (SS d_attrs (or_intror eq_refl)).
Qed.

(** reorderings of the two maps are equal as maps of sets *)
Lemma kmap_get_in_nodup m k d :
  NoDup (map (fun kd => k_key (fst kd)) m) -> In (k, d) m -> kmap_get m (k_key k) = Some d.
Proof.
  induction m as [|[k0 d0] m IH]; cbn [map kmap_get fst]; intros ND Hin; [destruct Hin|].
  inversion ND as [|? ? Hn ND']; subst.
  destruct Hin as [E|Hin].
  - inversion E; subst. rewrite String.eqb_refl. reflexivity.
  - destruct (String.eqb (k_key k0) (k_key k)) eqn:E; [|apply IH; assumption].
    apply String.eqb_eq in E. exfalso. apply Hn. rewrite E.
    apply (in_map (fun kd => k_key (fst kd)) m (k, d)). exact Hin.
Qed.

Lemma kmap_get_none_iff m key : kmap_get m key = None <-> ~ In key (map (fun kd => k_key (fst kd)) m).
Proof.
  induction m as [|[k0 d0] m IH]; cbn [map kmap_get fst]; [tauto|].
  destruct (String.eqb (k_key k0) key) eqn:E.
  - apply String.eqb_eq in E. split; [discriminate|]. intros H. exfalso. apply H. left; exact E.
  - apply String.eqb_neq in E. rewrite IH. cbn. tauto.
Qed.

Lemma kmap_perm_same a b :
  kmap_perm a b ->
  forall key,
    (kmap_get a key = None <-> kmap_get b key = None) /\
    same_set (d_derives (kmap_or_empty a key)) (d_derives (kmap_or_empty b key)) /\
    same_set (d_attrs (kmap_or_empty a key)) (d_attrs (kmap_or_empty b key)).
Proof.
  intros (NA & NB & HK & HV) key.
  assert (Hn : kmap_get a key = None <-> kmap_get b key = None).
  { rewrite !kmap_get_none_iff, HK. tauto. }
  split; [exact Hn|]. unfold kmap_or_empty.
  destruct (kmap_get a key) as [da|] eqn:Ga, (kmap_get b key) as [db|] eqn:Gb.
  - apply kmap_get_in in Ga as (ka & Ia & Ea). apply kmap_get_in in Gb as (kb & Ib & Eb).
    apply (HV ka da kb db Ia Ib). congruence.
  - destruct Hn as [_ Hn]. specialize (Hn eq_refl). discriminate.
  - destruct Hn as [Hn _]. specialize (Hn eq_refl). discriminate.
  - split; intros x; tauto.
Qed.

Theorem dreg_perm_same dr1 dr2 :
  same_set (d_derives (dr_default dr1)) (d_derives (dr_default dr2)) ->
  same_set (d_attrs (dr_default dr1)) (d_attrs (dr_default dr2)) ->
  kmap_perm (dr_specific dr1) (dr_specific dr2) ->
  kmap_perm (dr_recursive dr1) (dr_recursive dr2) ->
  dreg_same dr1 dr2.
Proof.
  intros H1 H2 HS HR. split; [exact H1|]. split; [exact H2|]. intros key.
  destruct (kmap_perm_same _ _ HS key) as (_ & S1 & S2).
  destruct (kmap_perm_same _ _ HR key) as (R0 & R1 & R2). auto 10.
Qed.

(** what C16 proves about permuted histories is the hypothesis used here *)
Lemma dreg_equiv_same a b : dreg_equiv a b -> dreg_same a b.
Proof.
  intros (H1 & H2 & H3). split; [exact H1|]. split; [exact H2|]. intros key.
  destruct (H3 key) as (_ & B & C & D & E & F).
  split; [|auto]. unfold is_some in B.
  destruct (kmap_get (dr_recursive a) key), (kmap_get (dr_recursive b) key); try discriminate;
    split; congruence.
Qed.

(** ** 2. the substitute map enters only through its lookups *)
Lemma subs_get_in_nodup (s : substitutes) p v :
  NoDup (map fst s) -> (subs_get s p = Some v <-> In (p, v) s).
Proof.
  induction s as [|[k v0] s IH]; cbn [map subs_get fst]; intros ND.
  - split; [discriminate|intros []].
  - inversion ND as [|? ? Hn ND']; subst. destruct (path_eqb k p) eqn:E.
    + apply path_eqb_eq in E; subst k. split.
      * intros H; inversion H; subst. left; reflexivity.
      * intros [H|H]; [inversion H; reflexivity|].
        exfalso. apply Hn. apply (in_map fst s (p, v)). exact H.
    + rewrite (IH ND'). split; [intros H; right; exact H|].
      intros [H|H]; [|exact H]. inversion H; subst. rewrite path_eqb_refl in E. discriminate.
Qed.

Theorem subs_perm_get (s1 s2 : substitutes) :
  NoDup (map fst s1) -> Permutation s1 s2 -> forall p, subs_get s1 p = subs_get s2 p.
Proof.
  intros ND P p.
  assert (ND2 : NoDup (map fst s2)).
  { eapply Permutation_NoDup; [apply Permutation_map; exact P|exact ND]. }
  destruct (subs_get s1 p) as [v|] eqn:G1.
  - apply (subs_get_in_nodup s1 p v ND) in G1. symmetry. apply (subs_get_in_nodup s2 p v ND2).
    eapply Permutation_in; eauto.
  - destruct (subs_get s2 p) as [v|] eqn:G2; [|reflexivity].
    apply (subs_get_in_nodup s2 p v ND2) in G2.
    apply (Permutation_in _ (Permutation_sym P)) in G2.
    apply (subs_get_in_nodup s1 p v ND) in G2. congruence.
Qed.

Section SettingsSame.
  Variable r : registry.
  Variables s1 s2 : settings.
  Hypothesis Hsame : settings_same s1 s2.

  Let Hroot : s_root s1 = s_root s2. Proof. apply Hsame. Qed.
  Let Hdocs : s_docs s1 = s_docs s2. Proof. apply Hsame. Qed.
  Let Hsubs : forall p, subs_get (s_subs s1) p = subs_get (s_subs s2) p. Proof. apply Hsame. Qed.
  Let Hbits : s_bits s1 = s_bits s2. Proof. apply Hsame. Qed.
  Let Hca : s_compact_as s1 = s_compact_as s2. Proof. apply Hsame. Qed.
  Let Hcompact : s_compact s1 = s_compact s2. Proof. apply Hsame. Qed.
  Let Hcodec : s_codec s1 = s_codec s2. Proof. apply Hsame. Qed.
  Let Halloc : s_alloc s1 = s_alloc s2. Proof. apply Hsame. Qed.

  Lemma subs_contains_same p : subs_contains (s_subs s1) p = subs_contains (s_subs s2) p.
  Proof. unfold subs_contains. rewrite Hsubs. reflexivity. Qed.

  Lemma maybe_subst_same path params :
    type_path_maybe_with_substitutes s1 path params = type_path_maybe_with_substitutes s2 path params.
  Proof.
    unfold type_path_maybe_with_substitutes, for_path_with_params.
    rewrite Hsubs, Halloc, Hroot. reflexivity.
  Qed.

  Lemma resolve_rec_same : forall fuel id isf parents orig,
    resolve_rec r s1 fuel id isf parents orig = resolve_rec r s2 fuel id isf parents orig.
  Proof.
    induction fuel as [|fuel IH]; intros id isf parents orig; [reflexivity|].
    cbn [resolve_rec].
    destruct (find_parent parents id orig); [reflexivity|].
    destruct (resolve_type r id) as [t0| |]; cbn [bind]; try reflexivity.
    match goal with |- bind ?X _ = bind ?X _ => destruct X as [t| |]; cbn [bind]; try reflexivity end.
    rewrite (mapM_ext (fun i => resolve_rec r s1 fuel i false parents None)
                      (fun i => resolve_rec r s2 fuel i false parents None))
      by (intros; apply IH).
    destruct (mapM (fun i => resolve_rec r s2 fuel i false parents None) (param_ids t))
      as [params| |]; cbn [bind]; try reflexivity.
    destruct (t_def t) as [fs|vs|e|len e|es|p|e|st o].
    - apply maybe_subst_same.
    - apply maybe_subst_same.
    - rewrite IH. reflexivity.
    - rewrite IH. reflexivity.
    - rewrite (mapM_ext (fun i => resolve_rec r s1 fuel i false parents None)
                        (fun i => resolve_rec r s2 fuel i false parents None))
        by (intros; apply IH). reflexivity.
    - reflexivity.
    - rewrite IH, Hcompact. reflexivity.
    - rewrite Hbits. destruct (s_bits s2); [|reflexivity]. rewrite !IH. reflexivity.
  Qed.

  Lemma field_ir_of_same params f : field_ir_of r s1 params f = field_ir_of r s2 params f.
  Proof. unfold field_ir_of, resolve_field_type_path. rewrite resolve_rec_same. reflexivity. Qed.

  Lemma composite_kind_same fs params unused :
    create_composite_ir_kind r s1 fs params unused = create_composite_ir_kind r s2 fs params unused.
  Proof.
    unfold create_composite_ir_kind. destruct fs as [|f fs]; [reflexivity|].
    destruct (negb (all_named (f :: fs) || all_unnamed (f :: fs))); [reflexivity|].
    destruct (all_named (f :: fs)).
    - rewrite (mapM_ext
                 (fun f0 => let* id := parse_ident match f_name f0 with Some n => n | None => "" end in
                            let* fi := field_ir_of r s1 params f0 in Ok (id, fi))
                 (fun f0 => let* id := parse_ident match f_name f0 with Some n => n | None => "" end in
                            let* fi := field_ir_of r s2 params f0 in Ok (id, fi)));
        [reflexivity|].
      intros x _. rewrite field_ir_of_same. reflexivity.
    - rewrite (mapM_ext (field_ir_of r s1 params) (field_ir_of r s2 params));
        [reflexivity|]. intros x _. apply field_ir_of_same.
  Qed.
End SettingsSame.

(** ** 3. [create_type_ir] = shape (independent of the derives) + derives *)
Section Shape.
  Variable r : registry.
  Variable s : settings.

  Definition variants_go (params : list tparam_ir) :=
    fix go (l : list variant) (unused : list tparam_ir)
      : result (list (N * composite_ir) * list tparam_ir) :=
      match l with
      | [] => Ok ([], unused)
      | v :: l' =>
          let* vn := parse_ident (v_name v) in
          let* ku := create_composite_ir_kind r s (v_fields v) params unused in
          let* rest := go l' (snd ku) in
          Ok ((v_index v, mk_ci vn (fst ku) (docs_from_scale_info s (v_docs v))) :: fst rest,
              snd rest)
      end.

  Definition type_shape (t : ty) : result (option (kind_ir * bool * list tparam_ir)) :=
    if negb (is_composite_or_variant (t_def t)) then Ok None
    else
      let params := params_from_scale_info (t_params t) in
      match path_ident (t_path t) with
      | None => Panic "Structs and enums should have a name"
      | Some nm =>
        let* name := parse_ident nm in
        let docs := docs_from_scale_info s (t_docs t) in
        let* kcu :=
          match t_def t with
          | TDComposite fs =>
              let* ku := create_composite_ir_kind r s fs params params in
              Ok (KStruct (mk_ci name (fst ku) docs), could_derive_as_compact (fst ku), snd ku)
          | TDVariant vs =>
              let* vu := variants_go params vs params in
              Ok (KEnum name docs (fst vu), false, snd vu)
          | _ => Panic "unreachable"
          end in
        Ok (Some kcu)
      end.

  Lemma create_type_ir_shape t flat :
    create_type_ir r s t flat =
    let* o := type_shape t in
    match o with
    | None => Ok None
    | Some (kind, cdac, unused) =>
        let* d := resolve_derives_for_type flat t in
        Ok (Some (mk_ti (params_from_scale_info (t_params t)) unused
                        (if cdac then add_as_compact s d else d) (s_codec s) kind))
    end.
  Proof.
    unfold create_type_ir, type_shape.
    destruct (negb (is_composite_or_variant (t_def t))); [reflexivity|].
    destruct (path_ident (t_path t)) as [nm|]; [|reflexivity].
    destruct (parse_ident nm) as [name| |]; cbn [bind]; try reflexivity.
    destruct (t_def t) as [fs|vs| | | | | | ]; try reflexivity.
    - destruct (create_composite_ir_kind r s fs _ _) as [[k u]| |]; cbn [bind]; reflexivity.
    - fold (variants_go (params_from_scale_info (t_params t))).
      destruct (variants_go (params_from_scale_info (t_params t)) vs _) as [[k u]| |];
        cbn [bind]; reflexivity.
  Qed.
End Shape.

Lemma type_shape_same r s1 s2 t : settings_same s1 s2 -> type_shape r s1 t = type_shape r s2 t.
Proof.
  intros Hsame. unfold type_shape.
  assert (Hdocs : forall d, docs_from_scale_info s1 d = docs_from_scale_info s2 d).
  { intros d. unfold docs_from_scale_info. destruct Hsame as (_ & -> & _). reflexivity. }
  destruct (negb (is_composite_or_variant (t_def t))); [reflexivity|].
  destruct (path_ident (t_path t)) as [nm|]; [|reflexivity].
  destruct (parse_ident nm) as [name| |]; cbn [bind]; try reflexivity.
  rewrite Hdocs.
  destruct (t_def t) as [fs|vs| | | | | | ]; try reflexivity.
  - rewrite (composite_kind_same r s1 s2 Hsame). reflexivity.
  - assert (E : forall l unused, variants_go r s1 (params_from_scale_info (t_params t)) l unused =
                                 variants_go r s2 (params_from_scale_info (t_params t)) l unused).
    { induction l as [|v l IH]; intros unused; cbn [variants_go]; [reflexivity|].
      destruct (parse_ident (v_name v)); cbn [bind]; try reflexivity.
      rewrite (composite_kind_same r s1 s2 Hsame).
      destruct (create_composite_ir_kind r s2 (v_fields v) _ unused) as [ku| |]; cbn [bind]; try reflexivity.
      rewrite IH, Hdocs. reflexivity. }
    rewrite E. reflexivity.
Qed.

(** ** 4. items equal up to the representation of their derive sets *)
Definition ir_equiv (a b : type_ir) : Prop :=
  ti_params a = ti_params b /\ ti_unused a = ti_unused b /\ ti_codec a = ti_codec b /\
  ti_kind a = ti_kind b /\ derives_tokens (ti_derives a) = derives_tokens (ti_derives b).

Definition items_equiv (m1 m2 : items) : Prop :=
  Forall2 (fun e1 e2 => fst e1 = fst e2 /\ fst (snd e1) = fst (snd e2) /\
                        ir_equiv (snd (snd e1)) (snd (snd e2))) m1 m2.

Definition flats_tokens_same (s1 s2 : settings) (fl1 fl2 : flat_registry) : Prop :=
  forall k,
    derives_tokens (resolve_derives fl1 k) = derives_tokens (resolve_derives fl2 k) /\
    derives_tokens (add_as_compact s1 (resolve_derives fl1 k)) =
    derives_tokens (add_as_compact s2 (resolve_derives fl2 k)).

Lemma create_type_ir_equiv r s1 s2 fl1 fl2 t o1 o2 :
  settings_same s1 s2 -> flats_tokens_same s1 s2 fl1 fl2 ->
  create_type_ir r s1 t fl1 = Ok o1 -> create_type_ir r s2 t fl2 = Ok o2 ->
  match o1, o2 with
  | None, None => True
  | Some a, Some b => ir_equiv a b
  | _, _ => False
  end.
Proof.
  intros Hsame Hfl. rewrite !create_type_ir_shape, (type_shape_same r s1 s2 t Hsame).
  destruct (type_shape r s2 t) as [[[[kind cdac] unused]|]| |]; cbn [bind]; try discriminate.
  - unfold resolve_derives_for_type.
    destruct (syn_type_path_key (t_path t)) as [k| |]; cbn [bind]; try discriminate.
    intros H1 H2. inversion H1; inversion H2; subst. unfold ir_equiv. cbn.
    destruct Hsame as (_ & _ & _ & _ & _ & _ & Hcodec & _).
    repeat (split; [auto|]). destruct (Hfl k) as [A B]. destruct cdac; assumption.
  - intros H1 H2. inversion H1; inversion H2; subst. exact I.
Qed.

Lemma items_get_equiv (m1 m2 : items) p :
  items_equiv m1 m2 ->
  match items_get m1 p, items_get m2 p with
  | None, None => True
  | Some (i1, a), Some (i2, b) => i1 = i2 /\ ir_equiv a b
  | _, _ => False
  end.
Proof.
  induction 1 as [|[k1 [i1 a]] [k2 [i2 b]] m1 m2 (Hk & Hi & Hir) HF IH]; cbn [items_get]; [exact I|].
  cbn [fst snd] in Hk, Hi, Hir. subst k2. destruct (path_eqb k1 p); [auto|exact IH].
Qed.

Lemma items_insert_equiv (m1 m2 : items) p id a b :
  items_equiv m1 m2 -> ir_equiv a b ->
  items_equiv (items_insert m1 p (id, a)) (items_insert m2 p (id, b)).
Proof.
  intros H Hab.
  induction H as [|[k1 [i1 a1]] [k2 [i2 b1]] m1 m2 (Hk & Hi & Hir) HF IH]; cbn [items_insert].
  - constructor; [cbn; auto|constructor].
  - cbn [fst snd] in Hk, Hi, Hir. subst k2. destruct (path_compare p k1).
    + constructor; [cbn; auto|exact HF].
    + constructor; [cbn; auto|]. constructor; [cbn; auto|exact HF].
    + constructor; [cbn; auto|exact IH].
Qed.

Lemma gen_loop_equiv r s1 s2 teq fl1 fl2 :
  settings_same s1 s2 -> flats_tokens_same s1 s2 fl1 fl2 ->
  forall l acc1 acc2 m1 m2,
    gen_loop r s1 teq fl1 l acc1 = Ok m1 -> gen_loop r s2 teq fl2 l acc2 = Ok m2 ->
    items_equiv acc1 acc2 -> items_equiv m1 m2.
Proof.
  intros Hsame Hfl. induction l as [|[id t] l IH]; intros acc1 acc2 m1 m2 H1 H2 Hacc.
  - cbn in H1, H2. inversion H1; inversion H2; subst. exact Hacc.
  - rewrite gen_loop_cons in H1, H2. rewrite <- (subs_contains_same s1 s2 Hsame) in H2.
    destruct (subs_contains (s_subs s1) (t_path t)); [eapply IH; eauto|].
    destruct (namespace (t_path t)) as [|n0 ns]; [eapply IH; eauto|].
    destruct (create_type_ir r s1 t fl1) as [o1| |] eqn:C1; cbn [bind] in H1; try discriminate.
    destruct (create_type_ir r s2 t fl2) as [o2| |] eqn:C2; cbn [bind] in H2; try discriminate.
    pose proof (create_type_ir_equiv _ _ _ _ _ _ _ _ Hsame Hfl C1 C2) as Ho.
    destruct o1 as [a|], o2 as [b|]; try contradiction; [|eapply IH; eauto].
    destruct (forallb ident_lexb (n0 :: ns)); [|discriminate].
    pose proof (items_get_equiv _ _ (t_path t) Hacc) as Hg.
    destruct (items_get acc1 (t_path t)) as [[i1 a']|], (items_get acc2 (t_path t)) as [[i2 b']|];
      try contradiction.
    + destruct Hg as [<- _].
      destruct (teq id i1) as [[|]| |]; cbn [bind] in H1, H2; try discriminate.
      eapply IH; eauto.
    + eapply IH; [exact H1|exact H2|]. apply items_insert_equiv; assumption.
Qed.

(** ** 5. emission *)
Section EmitSame.
  Variables s1 s2 : settings.
  Hypothesis Halloc : s_alloc s1 = s_alloc s2.
  Hypothesis Hroot : s_root s1 = s_root s2.

  Lemma field_tokens_same f : field_tokens s1 f = field_tokens s2 f.
  Proof. unfold field_tokens. rewrite Halloc. reflexivity. Qed.

  Lemma struct_field_tokens_same k ph c : struct_field_tokens s1 k ph c = struct_field_tokens s2 k ph c.
  Proof.
    unfold struct_field_tokens. destruct k as [|fs|fs]; [reflexivity| |].
    - rewrite (mapM_ext
                 (fun '(name, f) => let* t := field_tokens s1 f in
                                    Ok (compact_attr_of c f ++ ["pub"; name; ":"] ++ t ++ [","]))
                 (fun '(name, f) => let* t := field_tokens s2 f in
                                    Ok (compact_attr_of c f ++ ["pub"; name; ":"] ++ t ++ [","])));
        [reflexivity|]. intros [n f] _. rewrite field_tokens_same. reflexivity.
    - rewrite (mapM_ext
                 (fun f => let* t := field_tokens s1 f in Ok (compact_attr_of c f ++ ["pub"] ++ t ++ [","]))
                 (fun f => let* t := field_tokens s2 f in Ok (compact_attr_of c f ++ ["pub"] ++ t ++ [","])));
        [reflexivity|]. intros f _. rewrite field_tokens_same. reflexivity.
  Qed.

  Lemma enum_field_tokens_same k c : enum_field_tokens s1 k c = enum_field_tokens s2 k c.
  Proof.
    unfold enum_field_tokens. destruct k as [|fs|fs]; [reflexivity| |].
    - rewrite (mapM_ext
                 (fun '(name, f) => let* t := field_tokens s1 f in
                                    Ok (compact_attr_of c f ++ [name; ":"] ++ t ++ [","]))
                 (fun '(name, f) => let* t := field_tokens s2 f in
                                    Ok (compact_attr_of c f ++ [name; ":"] ++ t ++ [","])));
        [reflexivity|]. intros [n f] _. rewrite field_tokens_same. reflexivity.
    - rewrite (mapM_ext
                 (fun f => let* t := field_tokens s1 f in Ok (compact_attr_of c f ++ t ++ [","]))
                 (fun f => let* t := field_tokens s2 f in Ok (compact_attr_of c f ++ t ++ [","])));
        [reflexivity|]. intros f _. rewrite field_tokens_same. reflexivity.
  Qed.

  (** the item's tokens depend on its derives only through [derives_tokens] *)
  Lemma type_ir_tokens_equiv a b : ir_equiv a b -> type_ir_tokens s1 a = type_ir_tokens s2 b.
  Proof.
    destruct a as [pa ua da ca ka], b as [pb ub db cb kb]. unfold ir_equiv. cbn [ti_params ti_unused ti_derives ti_codec ti_kind].
    intros (-> & -> & -> & -> & Hd). unfold type_ir_tokens. cbn [ti_params ti_unused ti_derives ti_codec ti_kind].
    rewrite Hd. destruct kb as [c|name docs vs].
    - rewrite struct_field_tokens_same. reflexivity.
    - rewrite (mapM_ext
                 (fun '(idx, c) => let* fields := enum_field_tokens s1 (ci_kind c) cb in
                                   Ok ((if cb then codec_index idx else []) ++ doc_tokens (ci_docs c) ++
                                       [ci_name c] ++ fields ++ [","]))
                 (fun '(idx, c) => let* fields := enum_field_tokens s2 (ci_kind c) cb in
                                   Ok ((if cb then codec_index idx else []) ++ doc_tokens (ci_docs c) ++
                                       [ci_name c] ++ fields ++ [","])));
        [reflexivity|]. intros [idx c] _. rewrite enum_field_tokens_same. reflexivity.
  Qed.

  Definition entries_equiv (es1 es2 : list entry) : Prop :=
    Forall2 (fun e1 e2 => fst e1 = fst e2 /\ fst (snd e1) = fst (snd e2) /\
                          ir_equiv (snd (snd e1)) (snd (snd e2))) es1 es2.

  Lemma child_names_equiv es1 es2 : entries_equiv es1 es2 -> child_names es1 = child_names es2.
  Proof.
    induction 1 as [|e1 e2 es1 es2 (Hk & _) HF IH]; [reflexivity|].
    unfold child_names in *. cbn [fold_right]. rewrite IH, Hk. reflexivity.
  Qed.

  Lemma under_equiv h es1 es2 : entries_equiv es1 es2 -> entries_equiv (under h es1) (under h es2).
  Proof.
    induction 1 as [|[k1 v1] [k2 v2] es1 es2 (Hk & Hp & Hir) HF IH]; [constructor|].
    cbn [fst snd] in Hk, Hp, Hir. subst k2. unfold under in *. cbn [flat_map fst snd].
    destruct k1 as [|h' [|x tl]]; cbn [app]; try exact IH.
    destruct (String.eqb h h'); cbn [app]; [|exact IH].
    constructor; [cbn; auto|exact IH].
  Qed.

  Lemma here_equiv es1 es2 : entries_equiv es1 es2 -> entries_equiv (here es1) (here es2).
  Proof.
    induction 1 as [|[k1 v1] [k2 v2] es1 es2 (Hk & Hp & Hir) HF IH]; [constructor|].
    cbn [fst snd] in Hk, Hp, Hir. subst k2. unfold here in *. cbn [filter fst].
    destruct k1 as [|x [|y tl]]; try exact IH.
    constructor; [cbn; auto|exact IH].
  Qed.

  Lemma types_tokens_equiv es1 es2 :
    entries_equiv es1 es2 ->
    mapM (fun e : list string * (list string * type_ir) => type_ir_tokens s1 (snd (snd e))) es1 =
    mapM (fun e : list string * (list string * type_ir) => type_ir_tokens s2 (snd (snd e))) es2.
  Proof.
    induction 1 as [|e1 e2 es1 es2 (_ & _ & Hir) HF IH]; [reflexivity|].
    cbn [mapM]. rewrite (type_ir_tokens_equiv _ _ Hir), IH. reflexivity.
  Qed.

  Lemma module_tokens_equiv : forall fuel name es1 es2,
    entries_equiv es1 es2 -> module_tokens s1 fuel name es1 = module_tokens s2 fuel name es2.
  Proof.
    induction fuel as [|fuel IH]; intros name es1 es2 H; [reflexivity|].
    cbn [module_tokens]. rewrite (child_names_equiv _ _ H).
    rewrite (mapM_ext (fun h => module_tokens s1 fuel h (under h es1))
                      (fun h => module_tokens s2 fuel h (under h es2)))
      by (intros h _; apply IH, under_equiv, H).
    rewrite (types_tokens_equiv _ _ (here_equiv _ _ H)), Hroot. reflexivity.
  Qed.

  Lemma emit_module_equiv m1 m2 : items_equiv m1 m2 -> emit_module s1 m1 = emit_module s2 m2.
  Proof.
    intros H. unfold emit_module.
    assert (Hd : max_depth m1 = max_depth m2).
    { induction H as [|e1 e2 m1 m2 (Hk & _) HF IH]; [reflexivity|].
      unfold max_depth in *. cbn [fold_right]. rewrite IH, Hk. reflexivity. }
    rewrite Hd, Hroot. apply module_tokens_equiv. clear Hd.
    induction H as [|e1 e2 m1 m2 (Hk & Hi & Hir) HF IH]; [constructor|].
    cbn [map]. constructor; [cbn; auto|exact IH].
  Qed.
End EmitSame.

(** ** 6. C06 [generate_order_free] *)
Theorem generate_order_free r s1 s2 teq m1 m2 :
  settings_same s1 s2 -> dreg_same (s_dreg s1) (s_dreg s2) ->
  well_keyed (s_dreg s1) (s_dreg s2) (s_compact_as s1) ->
  generate r s1 teq = Ok m1 -> generate r s2 teq = Ok m2 ->
  emit_module s1 m1 = emit_module s2 m2.
Proof.
  intros Hsame Hd Hwk H1 H2. unfold generate in H1, H2.
  apply bind_ok in H1 as (u1 & _ & H1). apply bind_ok in H1 as (fl1 & F1 & H1).
  apply bind_ok in H2 as (u2 & _ & H2). apply bind_ok in H2 as (fl2 & F2 & H2).
  assert (Hca : s_compact_as s1 = s_compact_as s2) by apply Hsame.
  assert (Hfl : flats_tokens_same s1 s2 fl1 fl2).
  { intros k. eapply resolve_tokens_order_free; eauto. }
  apply emit_module_equiv; [apply Hsame|apply Hsame|].
  eapply gen_loop_equiv; eauto. constructor.
Qed.

(** permuted registration histories (C16) give equal generated tokens *)
Definition with_state (s : settings) (st : bstate) : settings :=
  mk_settings (s_root s) (s_docs s) (b_dreg st) (b_subs st) (s_bits s) (s_compact_as s)
              (s_compact s) (s_codec s) (s_alloc s).

Local Notation kmap_keys m := (map (fun kd : tykey * derives => k_key (fst kd)) m).

Lemma kmap_extend_keys m k0 d0 key :
  In key (kmap_keys (kmap_extend m k0 d0)) -> key = k_key k0 \/ In key (kmap_keys m).
Proof.
  induction m as [|[k2 d2] m IH]; cbn [kmap_extend map fst].
  - intros [H|[]]; left; auto.
  - destruct (String.eqb (k_key k2) (k_key k0)); cbn [map fst In]; [tauto|].
    intros [H|H]; [tauto|]. destruct (IH H); tauto.
Qed.

Lemma kmap_extend_nodup m k0 d0 : NoDup (kmap_keys m) -> NoDup (kmap_keys (kmap_extend m k0 d0)).
Proof.
  induction m as [|[k1 d1] m IH]; intros ND; cbn [kmap_extend map fst].
  - constructor; [intros []|constructor].
  - inversion ND as [|? ? Hn ND']; subst.
    destruct (String.eqb (k_key k1) (k_key k0)) eqn:E; cbn [map fst].
    + constructor; assumption.
    + constructor; [|apply IH; exact ND'].
      intros Hin. destruct (kmap_extend_keys _ _ _ _ Hin) as [Hk|Hk]; [|apply Hn; exact Hk].
      apply String.eqb_neq in E. congruence.
Qed.

(** the keys of either map of a builder state are pairwise distinct *)
Lemma step_keys_nodup st o rc :
  NoDup (kmap_keys (side (b_dreg st) rc)) -> NoDup (kmap_keys (side (b_dreg (step_state st o)) rc)).
Proof.
  intros ND. destruct (is_derive_op o) eqn:D; [|rewrite sub_ops_keep_dreg by exact D; exact ND].
  unfold step_state. destruct o as [ds|ats|k ds rec|k ats rec|? ?|? ?|?]; try discriminate;
    cbn [apply_op fst b_dreg].
  - destruct rc; exact ND.
  - destruct rc; exact ND.
  - destruct rec, rc; cbn [side dr_recursive dr_specific] in *; try exact ND;
      apply kmap_extend_nodup; exact ND.
  - destruct rec, rc; cbn [side dr_recursive dr_specific] in *; try exact ND;
      apply kmap_extend_nodup; exact ND.
Qed.

Lemma history_keys_nodup ops rc : NoDup (kmap_keys (side (b_dreg (fst (run_ops ops))) rc)).
Proof.
  rewrite run_ops_fst. unfold final_state.
  assert (G : forall l st, NoDup (kmap_keys (side (b_dreg st) rc)) ->
                           NoDup (kmap_keys (side (b_dreg (fold_left step_state l st)) rc))).
  { induction l as [|o l IH]; intros st ND; cbn [fold_left]; [exact ND|].
    apply IH, step_keys_nodup, ND. }
  apply G. destruct rc; cbn; constructor.
Qed.

(** every derive / attribute stored in a builder state is an argument of some call *)
Lemma dreg_all_history ops sel (Hs : selector sel) x :
  In x (dreg_all sel (b_dreg (fst (run_ops ops)))) -> In x (history_args ops).
Proof.
  destruct (registered_from_args ops) as (A1 & A2 & A3 & A4). cbv zeta in *.
  unfold dreg_all. intros Hx. apply in_app_or in Hx as [Hx|Hx].
  - destruct Hs as [->| ->]; auto.
  - apply in_flat_map in Hx as ([k d] & Hin & Hx). cbn [snd] in Hx.
    assert (Hside : exists rc, In (k, d) (side (b_dreg (fst (run_ops ops))) rc)).
    { apply in_app_or in Hin as [Hin|Hin]; [exists false|exists true]; exact Hin. }
    destruct Hside as (rc & Hside).
    pose proof (kmap_get_in_nodup _ _ _ (history_keys_nodup ops rc) Hside) as Hfound.
    destruct Hs as [->| ->].
    + apply (A3 rc (k_key k)). unfold kmap_get_or_empty. rewrite Hfound. exact Hx.
    + apply (A4 rc (k_key k)). unfold kmap_get_or_empty. rewrite Hfound. exact Hx.
Qed.

Lemma histories_hyps s ops1 ops2 :
  Permutation (filter is_derive_op ops1) (filter is_derive_op ops2) ->
  (forall p, subs_get (b_subs (fst (run_ops ops1))) p = subs_get (b_subs (fst (run_ops ops2))) p) ->
  key_functional (history_args ops1 ++ opt_list (s_compact_as s)) ->
  let s1 := with_state s (fst (run_ops ops1)) in
  let s2 := with_state s (fst (run_ops ops2)) in
  settings_same s1 s2 /\ dreg_same (s_dreg s1) (s_dreg s2) /\
  well_keyed (s_dreg s1) (s_dreg s2) (s_compact_as s1).
Proof.
  intros P Hsubs KF. cbv zeta. split; [|split].
  - unfold settings_same, with_state. cbn. auto 10.
  - cbn [with_state s_dreg]. apply dreg_equiv_same, order_irrelevant; exact P.
  - cbn [with_state s_dreg s_compact_as].
    pose proof (history_args_perm _ _ P) as HP.
    split.
    + eapply key_functional_sub; [|exact KF]. intros x Hx. apply in_or_app.
      apply in_app_or in Hx as [Hx|Hx]; [left|apply in_app_or in Hx as [Hx|Hx]; [left|right; exact Hx]].
      * eapply dreg_all_history; [left; reflexivity|exact Hx].
      * apply HP. eapply dreg_all_history; [left; reflexivity|exact Hx].
    + eapply key_functional_sub; [|exact KF]. intros x Hx. apply in_or_app. left.
      apply in_app_or in Hx as [Hx|Hx].
      * eapply dreg_all_history; [right; reflexivity|exact Hx].
      * apply HP. eapply dreg_all_history; [right; reflexivity|exact Hx].
Qed.

Theorem histories_order_free r s teq ops1 ops2 m1 m2 :
  Permutation (filter is_derive_op ops1) (filter is_derive_op ops2) ->
  (forall p, subs_get (b_subs (fst (run_ops ops1))) p = subs_get (b_subs (fst (run_ops ops2))) p) ->
  key_functional (history_args ops1 ++ opt_list (s_compact_as s)) ->
  generate r (with_state s (fst (run_ops ops1))) teq = Ok m1 ->
  generate r (with_state s (fst (run_ops ops2))) teq = Ok m2 ->
  emit_module (with_state s (fst (run_ops ops1))) m1 = emit_module (with_state s (fst (run_ops ops2))) m2.
Proof.
  intros P Hsubs KF H1 H2. destruct (histories_hyps s ops1 ops2 P Hsubs KF) as (A & B & C).
  apply (generate_order_free r _ _ teq m1 m2); auto.
Qed.

(** ** 7. [ensure_unique]: the renaming does not depend on the order of the path groups *)
Definition find_group (i : N) : list (list N) -> N -> option N :=
  fix find_g (gs : list (list N)) (n : N) : option N :=
    match gs with
    | [] => None
    | g :: gs' => if mem_N i g then Some n else find_g gs' (n + 1)%N
    end.

(** the suffix the groups [gs] of ONE path give to index [i] *)
Definition entry_suffix (i : N) (gs : list (list N)) : option N :=
  match gs with
  | _ :: _ :: _ => find_group i gs 1%N
  | _ => None
  end.

Lemma suffix_for_cons p gs m i :
  suffix_for ((p, gs) :: m) i =
  match entry_suffix i gs with Some n => Some n | None => suffix_for m i end.
Proof.
  unfold suffix_for, entry_suffix. destruct gs as [|g1 [|g2 gs]]; reflexivity.
Qed.

Lemma suffix_for_nil i : suffix_for [] i = None.
Proof. reflexivity. Qed.

Lemma suffix_for_some m i n :
  suffix_for m i = Some n -> exists e, In e m /\ entry_suffix i (snd e) = Some n.
Proof.
  induction m as [|[p gs] m IH]; [rewrite suffix_for_nil; discriminate|].
  rewrite suffix_for_cons. destruct (entry_suffix i gs) as [n'|] eqn:E.
  - intros H; inversion H; subst. exists (p, gs). split; [left; reflexivity|exact E].
  - intros H. destruct (IH H) as (e & Hin & He). exists e. split; [right; exact Hin|exact He].
Qed.

Lemma suffix_for_none m i :
  suffix_for m i = None <-> forall e, In e m -> entry_suffix i (snd e) = None.
Proof.
  induction m as [|[p gs] m IH]; [rewrite suffix_for_nil; split; [intros _ e []|reflexivity]|].
  rewrite suffix_for_cons. destruct (entry_suffix i gs) as [n'|] eqn:E.
  - split; [discriminate|]. intros H. specialize (H (p, gs) (or_introl eq_refl)). cbn in H. congruence.
  - rewrite IH. split.
    + intros H e [<-|Hin]; [exact E|apply H; exact Hin].
    + intros H e Hin. apply H; right; exact Hin.
Qed.

(** the suffix of an index is the one given by the groups of any path that lists it,
    provided no other path lists it with a different suffix (true of [build_groups]: an
    index is entered under its own path only) *)
Theorem suffix_for_local m i :
  (forall e1 e2 n1 n2, In e1 m -> In e2 m -> entry_suffix i (snd e1) = Some n1 ->
                       entry_suffix i (snd e2) = Some n2 -> n1 = n2) ->
  forall e, In e m -> entry_suffix i (snd e) <> None -> suffix_for m i = entry_suffix i (snd e).
Proof.
  intros Hu e Hin Hne. destruct (suffix_for m i) as [n|] eqn:S.
  - apply suffix_for_some in S as (e' & Hin' & He').
    destruct (entry_suffix i (snd e)) as [n'|] eqn:E; [|congruence].
    f_equal. exact (Hu e' e n n' Hin' Hin He' E).
  - exfalso. apply Hne. apply (proj1 (suffix_for_none m i) S). exact Hin.
Qed.

(** C06 [dedup_order_free]: any reordering of the path groups renames every index the same way *)
Theorem suffix_for_perm m1 m2 i :
  Permutation m1 m2 ->
  (forall e1 e2 n1 n2, In e1 m1 -> In e2 m1 -> entry_suffix i (snd e1) = Some n1 ->
                       entry_suffix i (snd e2) = Some n2 -> n1 = n2) ->
  suffix_for m1 i = suffix_for m2 i.
Proof.
  intros P Hu. destruct (suffix_for m1 i) as [n|] eqn:S1.
  - apply suffix_for_some in S1 as (e & Hin & He).
    destruct (suffix_for m2 i) as [n'|] eqn:S2.
    + apply suffix_for_some in S2 as (e' & Hin' & He').
      apply (Permutation_in _ (Permutation_sym P)) in Hin'. f_equal.
      exact (Hu e e' n n' Hin Hin' He He').
    + exfalso. pose proof (proj1 (suffix_for_none m2 i) S2 e (Permutation_in _ P Hin)). congruence.
  - symmetry. apply suffix_for_none. intros e Hin.
    apply (proj1 (suffix_for_none m1 i) S1). eapply Permutation_in; [apply Permutation_sym; exact P|exact Hin].
Qed.

(** sufficient for the side condition: the index occurs in the groups of one entry only *)
Lemma entry_suffix_some_occurs i gs n : entry_suffix i gs = Some n -> exists g, In g gs /\ In i g.
Proof.
  unfold entry_suffix. destruct gs as [|g1 [|g2 gs]]; try discriminate.
  generalize 1%N. generalize (g1 :: g2 :: gs). clear.
  induction l as [|g l IH]; intros n0; cbn [find_group]; [discriminate|].
  destruct (mem_N i g) eqn:M.
  - intros _. exists g. split; [left; reflexivity|apply mem_N_In; exact M].
  - intros H. destruct (IH _ H) as (g' & Hin & Hi). exists g'. split; [right; exact Hin|exact Hi].
Qed.

Corollary suffix_for_perm_disjoint m1 m2 i :
  Permutation m1 m2 ->
  (forall e1 e2 g1 g2, In e1 m1 -> In e2 m1 -> In g1 (snd e1) -> In g2 (snd e2) ->
                       In i g1 -> In i g2 -> e1 = e2) ->
  suffix_for m1 i = suffix_for m2 i.
Proof.
  intros P Hd. apply suffix_for_perm; [exact P|].
  intros e1 e2 n1 n2 H1 H2 E1 E2.
  destruct (entry_suffix_some_occurs _ _ _ E1) as (g1 & Hg1 & Hi1).
  destruct (entry_suffix_some_occurs _ _ _ E2) as (g2 & Hg2 & Hi2).
  assert (e1 = e2) by (eapply Hd; eauto). subst. congruence.
Qed.

(** ** 8. the side condition is an invariant of [build_groups]: an index is entered under
    its own path only, and the paths of the groups map are pairwise distinct *)
Definition build_go (r : registry) :=
  fix go (idx : N) (l : registry) (m : groups) : result groups :=
    match l with
    | [] => Ok m
    | (_, t) :: l' =>
        match namespace (t_path t) with
        | [] => go (idx + 1)%N l' m
        | _ => let* m' := groups_add r m (t_path t) idx in go (idx + 1)%N l' m'
        end
    end.

Lemma build_groups_unfold r : build_groups r = build_go r 0%N r [].
Proof. reflexivity. Qed.

Definition rename_go (m : groups) :=
  fix go (idx : N) (l : registry) : registry :=
    match l with
    | [] => []
    | (id, t) :: l' =>
        (id, match suffix_for m idx with
             | Some n => mk_ty (rename_last (t_path t) n) (t_params t) (t_def t) (t_docs t)
             | None => t
             end) :: go (idx + 1)%N l'
    end.

Lemma ensure_unique_unfold r :
  ensure_unique r =
  let* _ := sanity r in let* m := build_groups r in Ok (rename_go m 0%N r).
Proof. reflexivity. Qed.

Lemma add_to_groups_members r i : forall gs gs',
  add_to_groups r i gs = Ok gs' ->
  forall g j, In g gs' -> In j g -> j = i \/ exists g0, In g0 gs /\ In j g0.
Proof.
  induction gs as [|g0 gs IH]; intros gs' H g j Hg Hj; cbn [add_to_groups] in H.
  - inversion H; subst. destruct Hg as [<-|[]]. destruct Hj as [<-|[]]. left; reflexivity.
  - destruct g0 as [|other g0']; [discriminate|].
    apply bind_ok in H as (e & _ & H). destruct e.
    + inversion H; subst. destruct Hg as [<-|Hg].
      * change (In j ((other :: g0') ++ [i])) in Hj.
        apply in_app_or in Hj as [Hj|[<-|[]]]; [|left; reflexivity].
        right. exists (other :: g0'). split; [left; reflexivity|exact Hj].
      * right. exists g. split; [right; exact Hg|exact Hj].
    + apply bind_ok in H as (gs'' & Ha & H). inversion H; subst. destruct Hg as [<-|Hg].
      * right. exists (other :: g0'). split; [left; reflexivity|exact Hj].
      * destruct (IH _ Ha g j Hg Hj) as [E|(g1 & Hg1 & Hj1)]; [left; exact E|].
        right. exists g1. split; [right; exact Hg1|exact Hj1].
Qed.

Lemma groups_add_spec r i p : forall m m',
  groups_add r m p i = Ok m' ->
  (map fst m' = map fst m \/ (map fst m' = map fst m ++ [p] /\ ~ In p (map fst m))) /\
  (forall k gs' g j, In (k, gs') m' -> In g gs' -> In j g ->
                     (j = i /\ k = p) \/ exists gs g0, In (k, gs) m /\ In g0 gs /\ In j g0).
Proof.
  induction m as [|[k0 gs0] m IH]; intros m' H; cbn [groups_add] in H.
  - inversion H; subst. split; [right; split; [reflexivity|intros []]|].
    intros k gs' g j [E|[]] Hg Hj. inversion E; subst.
    destruct Hg as [<-|[]]. destruct Hj as [<-|[]]. left; auto.
  - destruct (path_eqb k0 p) eqn:E.
    + apply path_eqb_eq in E; subst k0. apply bind_ok in H as (gs1 & Ha & H). inversion H; subst.
      split; [left; reflexivity|].
      intros k gs' g j [Ein|Hin] Hg Hj.
      * inversion Ein; subst.
        destruct (add_to_groups_members _ _ _ _ Ha g j Hg Hj) as [->|(g1 & Hg1 & Hj1)]; [left; auto|].
        right. exists gs0, g1. split; [left; reflexivity|auto].
      * right. exists gs', g. split; [right; exact Hin|auto].
    + apply bind_ok in H as (m1 & Ha & H). inversion H; subst. destruct (IH _ Ha) as [K M].
      split.
      * cbn [map fst]. destruct K as [K|[K Hn]]; [left; rewrite K; reflexivity|].
        right. split; [rewrite K; reflexivity|].
        intros [Hp|Hp]; [subst; rewrite path_eqb_refl in E; discriminate|contradiction].
      * intros k gs' g j [Ein|Hin] Hg Hj.
        -- inversion Ein; subst. right. exists gs', g. split; [left; reflexivity|auto].
        -- destruct (M _ _ _ _ Hin Hg Hj) as [L|(gs & g1 & H1 & H2 & H3)]; [left; exact L|].
           right. exists gs, g1. split; [right; exact H1|auto].
Qed.

Section BuildInv.
  Variable r : registry.
  (** [P j k]: index [j] belongs under path [k] *)
  Variable P : N -> list string -> Prop.

  Definition groups_inv (m : groups) : Prop :=
    NoDup (map fst m) /\ forall k gs g j, In (k, gs) m -> In g gs -> In j g -> P j k.

  Lemma build_go_inv : forall l idx m m',
    groups_inv m ->
    (forall n e, nth_error l n = Some e -> P (idx + N.of_nat n)%N (t_path (snd e))) ->
    build_go r idx l m = Ok m' -> groups_inv m'.
  Proof.
    induction l as [|[id t] l IH]; intros idx m m' Hinv HP H; cbn [build_go] in H.
    - inversion H; subst; exact Hinv.
    - assert (HP' : forall n e, nth_error l n = Some e -> P (idx + 1 + N.of_nat n)%N (t_path (snd e))).
      { intros n e Hn. specialize (HP (S n) e Hn).
        replace (idx + 1 + N.of_nat n)%N with (idx + N.of_nat (S n))%N by lia. exact HP. }
      destruct (namespace (t_path t)) as [|n0 ns]; [eapply IH; eauto|].
      apply bind_ok in H as (m1 & Ha & H). eapply IH; [|exact HP'|exact H].
      destruct (groups_add_spec _ _ _ _ _ Ha) as [K M]. destruct Hinv as [ND Hown]. split.
      + destruct K as [K|[K Hn]]; rewrite K; [exact ND|].
        eapply Permutation_NoDup; [apply Permutation_cons_append|]. constructor; assumption.
      + intros k gs g j Hin Hg Hj.
        destruct (M _ _ _ _ Hin Hg Hj) as [[-> ->]|(gs0 & g0 & H1 & H2 & H3)].
        * specialize (HP O (id, t) eq_refl). cbn [snd] in HP.
          replace (idx + N.of_nat 0)%N with idx in HP by lia. exact HP.
        * eapply Hown; eauto.
  Qed.
End BuildInv.

Definition path_at (r : registry) (j : N) (k : list string) : Prop :=
  exists e, nth_error r (N.to_nat j) = Some e /\ t_path (snd e) = k.

Lemma build_groups_inv r m : build_groups r = Ok m -> groups_inv (path_at r) m.
Proof.
  rewrite build_groups_unfold. apply build_go_inv.
  - split; [constructor|intros ? ? ? ? []].
  - intros n e Hn. exists e. split; [|reflexivity].
    replace (N.to_nat (0 + N.of_nat n)) with n by lia. exact Hn.
Qed.

Lemma nodup_keys_functional {A B} (m : list (A * B)) k a b :
  NoDup (map fst m) -> In (k, a) m -> In (k, b) m -> a = b.
Proof.
  induction m as [|[k0 v0] m IH]; cbn [map fst]; intros ND Ha Hb; [destruct Ha|].
  inversion ND as [|? ? Hn ND']; subst.
  destruct Ha as [Ea|Ha], Hb as [Eb|Hb].
  - congruence.
  - inversion Ea; subst. exfalso. apply Hn. apply (in_map fst m (k, b)). exact Hb.
  - inversion Eb; subst. exfalso. apply Hn. apply (in_map fst m (k, a)). exact Ha.
  - eapply IH; eauto.
Qed.

(** C06 [dedup_order_free]: whatever order the path groups of [build_groups] are visited
    in, every index gets the same new name, so the de-duplicated registry is the same *)
Theorem build_groups_suffix_perm r m m' :
  build_groups r = Ok m -> Permutation m m' -> forall i, suffix_for m i = suffix_for m' i.
Proof.
  intros Hb P i. destruct (build_groups_inv _ _ Hb) as [ND Hown].
  apply suffix_for_perm_disjoint; [exact P|].
  intros [k1 gs1] [k2 gs2] g1 g2 H1 H2 Hg1 Hg2 Hi1 Hi2. cbn [snd] in Hg1, Hg2.
  destruct (Hown _ _ _ _ H1 Hg1 Hi1) as (e1 & N1 & <-).
  destruct (Hown _ _ _ _ H2 Hg2 Hi2) as (e2 & N2 & <-).
  rewrite N1 in N2. inversion N2; subst e2.
  f_equal. eapply nodup_keys_functional; eauto.
Qed.

Theorem ensure_unique_order_free r m m' :
  build_groups r = Ok m -> Permutation m m' -> rename_go m 0%N r = rename_go m' 0%N r.
Proof.
  intros Hb P.
  assert (G : forall l idx, rename_go m idx l = rename_go m' idx l).
  { induction l as [|[id t] l IH]; intros idx; cbn [rename_go]; [reflexivity|].
    rewrite (build_groups_suffix_perm r m m' Hb P idx), IH. reflexivity. }
  apply G.
Qed.

(** ** 9. the outcome as a whole (errors and panics included) is order free *)
Definition res_rel {A B} (R : A -> B -> Prop) (x : result A) (y : result B) : Prop :=
  match x, y with
  | Ok a, Ok b => R a b
  | Err e1, Err e2 => e1 = e2
  | Panic a, Panic b => a = b
  | _, _ => False
  end.

Definition generate_tokens (r : registry) (s : settings) (teq : N -> N -> result bool)
  : result tokens :=
  let* m := generate r s teq in emit_module s m.

Lemma roots_go_rel rc1 rc2 r :
  (forall key, kmap_get rc1 key = None <-> kmap_get rc2 key = None) ->
  forall l acc1 acc2,
    res_rel (fun _ _ => True) (roots_go rc1 r l acc1) (roots_go rc2 r l acc2).
Proof.
  intros Hn. induction l as [|[id [k|]] l IH]; intros acc1 acc2; cbn [roots_go].
  - exact I.
  - destruct (kmap_get rc1 k) as [d1|] eqn:G1, (kmap_get rc2 k) as [d2|] eqn:G2.
    + destruct (collect_type_ids r id) as [ids| |]; cbn [bind]; [apply IH|reflexivity|reflexivity].
    + apply Hn in G2. congruence.
    + apply Hn in G1. congruence.
    + apply IH.
  - apply IH.
Qed.

Lemma flatten_rel dr1 dr2 r :
  dreg_same dr1 dr2 -> res_rel (fun _ _ => True) (flatten dr1 r) (flatten dr2 r).
Proof.
  intros (_ & _ & H3).
  assert (Hn : forall key, kmap_get (dr_recursive dr1) key = None <-> kmap_get (dr_recursive dr2) key = None)
    by (intros key; apply (H3 key)).
  rewrite !flatten_unfold.
  destruct (dr_recursive dr1) as [|[k1 d1] rc1] eqn:E1, (dr_recursive dr2) as [|[k2 d2] rc2] eqn:E2.
  - exact I.
  - exfalso. specialize (Hn (k_key k2)). cbn [kmap_get fst] in Hn.
    rewrite String.eqb_refl in Hn. destruct Hn as [Hn _]. specialize (Hn eq_refl). discriminate.
  - exfalso. specialize (Hn (k_key k1)). cbn [kmap_get fst] in Hn.
    rewrite String.eqb_refl in Hn. destruct Hn as [_ Hn]. specialize (Hn eq_refl). discriminate.
  - destruct (mapM key_entry r) as [keys| |]; cbn [bind]; try reflexivity.
    pose proof (roots_go_rel _ _ r Hn keys [] []) as R.
    destruct (roots_go ((k1, d1) :: rc1) r keys []) as [a1| |],
             (roots_go ((k2, d2) :: rc2) r keys []) as [a2| |]; cbn [bind]; cbn in R; auto.
Qed.

Lemma create_type_ir_rel r s1 s2 fl1 fl2 t :
  settings_same s1 s2 -> flats_tokens_same s1 s2 fl1 fl2 ->
  res_rel (fun o1 o2 => match o1, o2 with
                        | None, None => True
                        | Some a, Some b => ir_equiv a b
                        | _, _ => False
                        end)
          (create_type_ir r s1 t fl1) (create_type_ir r s2 t fl2).
Proof.
  intros Hsame Hfl. rewrite !create_type_ir_shape, (type_shape_same r s1 s2 t Hsame).
  destruct (type_shape r s2 t) as [[[[kind cdac] unused]|]| |]; cbn [bind];
    [|exact I|reflexivity|reflexivity].
  unfold resolve_derives_for_type.
  destruct (syn_type_path_key (t_path t)) as [k| |]; cbn [bind]; [|reflexivity|reflexivity].
  - unfold res_rel, ir_equiv. cbn [ti_params ti_unused ti_codec ti_kind ti_derives].
    destruct Hsame as (_ & _ & _ & _ & _ & _ & Hcodec & _).
    repeat (split; [auto|]). destruct (Hfl k) as [A B]. destruct cdac; assumption.
Qed.

Lemma gen_loop_rel r s1 s2 teq fl1 fl2 :
  settings_same s1 s2 -> flats_tokens_same s1 s2 fl1 fl2 ->
  forall l acc1 acc2,
    items_equiv acc1 acc2 ->
    res_rel items_equiv (gen_loop r s1 teq fl1 l acc1) (gen_loop r s2 teq fl2 l acc2).
Proof.
  intros Hsame Hfl. induction l as [|[id t] l IH]; intros acc1 acc2 Hacc.
  - cbn. exact Hacc.
  - rewrite !gen_loop_cons. rewrite <- (subs_contains_same s1 s2 Hsame).
    destruct (subs_contains (s_subs s1) (t_path t)); [apply IH; exact Hacc|].
    destruct (namespace (t_path t)) as [|n0 ns]; [apply IH; exact Hacc|].
    pose proof (create_type_ir_rel r s1 s2 fl1 fl2 t Hsame Hfl) as Ho.
    destruct (create_type_ir r s1 t fl1) as [[a|]| |], (create_type_ir r s2 t fl2) as [[b|]| |];
      cbn [bind]; cbn in Ho; try contradiction; try exact Ho; [|apply IH; exact Hacc].
    destruct (forallb ident_lexb (n0 :: ns)); [|reflexivity].
    pose proof (items_get_equiv _ _ (t_path t) Hacc) as Hg.
    destruct (items_get acc1 (t_path t)) as [[i1 a']|], (items_get acc2 (t_path t)) as [[i2 b']|];
      try contradiction.
    + destruct Hg as [<- _].
      destruct (teq id i1) as [[|]| |]; cbn [bind]; try reflexivity. apply IH; exact Hacc.
    + apply IH. apply items_insert_equiv; assumption.
Qed.

(** C06 [output_order_free]: the whole outcome - tokens, or the error, or the panic - is the
    same for settings that are equal as finite maps of finite sets *)
Theorem generate_tokens_order_free r s1 s2 teq :
  settings_same s1 s2 -> dreg_same (s_dreg s1) (s_dreg s2) ->
  well_keyed (s_dreg s1) (s_dreg s2) (s_compact_as s1) ->
  generate_tokens r s1 teq = generate_tokens r s2 teq.
Proof.
  intros Hsame Hd Hwk. unfold generate_tokens, generate.
  destruct (sanity_pass r) as [u| |]; cbn [bind]; try reflexivity.
  pose proof (flatten_rel _ _ r Hd) as Hf.
  destruct (flatten (s_dreg s1) r) as [fl1| |] eqn:F1, (flatten (s_dreg s2) r) as [fl2| |] eqn:F2;
    cbn [bind]; cbn in Hf; try contradiction; try (rewrite Hf; reflexivity).
  assert (Hca : s_compact_as s1 = s_compact_as s2) by apply Hsame.
  assert (Hfl : flats_tokens_same s1 s2 fl1 fl2).
  { intros k. eapply resolve_tokens_order_free; eauto. }
  pose proof (gen_loop_rel r s1 s2 teq fl1 fl2 Hsame Hfl r [] [] (Forall2_nil _)) as Hg.
  destruct (gen_loop r s1 teq fl1 r []) as [m1| |], (gen_loop r s2 teq fl2 r []) as [m2| |];
    cbn [bind]; cbn in Hg; try contradiction; try (rewrite Hg; reflexivity).
  apply emit_module_equiv; [apply Hsame|apply Hsame|exact Hg].
Qed.

(** permuted registration histories: the whole outcome is the same *)
Theorem histories_tokens_order_free r s teq ops1 ops2 :
  Permutation (filter is_derive_op ops1) (filter is_derive_op ops2) ->
  (forall p, subs_get (b_subs (fst (run_ops ops1))) p = subs_get (b_subs (fst (run_ops ops2))) p) ->
  key_functional (history_args ops1 ++ opt_list (s_compact_as s)) ->
  generate_tokens r (with_state s (fst (run_ops ops1))) teq =
  generate_tokens r (with_state s (fst (run_ops ops2))) teq.
Proof.
  intros P Hsubs KF. destruct (histories_hyps s ops1 ops2 P Hsubs KF) as (A & B & C).
  apply generate_tokens_order_free; assumption.
Qed.

(** the substitute calls of a history determine the substitute lookups: histories with the
    same sub-history of substitute calls answer every lookup alike *)
Lemma rule_step_derive_op k cur o : is_derive_op o = true -> rule_step k cur o = cur.
Proof. destruct o; cbn; try discriminate; reflexivity. Qed.

Lemma spec_rule_filter ops k :
  spec_rule ops k = spec_rule (filter (fun o => negb (is_derive_op o)) ops) k.
Proof.
  unfold spec_rule. generalize (@None substitute).
  induction ops as [|o ops IH]; intros cur; cbn [filter fold_left]; [reflexivity|].
  destruct (is_derive_op o) eqn:D; cbn [negb fold_left].
  - rewrite (rule_step_derive_op k cur o D). apply IH.
  - apply IH.
Qed.

Theorem same_sub_history_same_lookups ops1 ops2 :
  filter (fun o => negb (is_derive_op o)) ops1 = filter (fun o => negb (is_derive_op o)) ops2 ->
  forall p, subs_get (b_subs (fst (run_ops ops1))) p = subs_get (b_subs (fst (run_ops ops2))) p.
Proof.
  intros E p. rewrite !rule_for_key, (spec_rule_filter ops1), (spec_rule_filter ops2), E. reflexivity.
Qed.
