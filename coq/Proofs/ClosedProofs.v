(** C02: the generated module is closed - unique item names (ordered map with
    strictly increasing keys), every declared generic is used by a field or
    listed in the PhantomData marker, every path rooted at the types module
    names an emitted item. *)
From Coq Require Import List NArith String Ascii Bool Lia Arith Sorted.
From V Require Import Base.Strings Base.Result Model.Registry Model.Settings Model.Subst
  Model.TypePath Model.Derives Model.Generate Model.Emit Model.Equal Model.WellFormed
  Proofs.GenProofs Proofs.StringOrder Proofs.ResolveTotal Proofs.GenTotal.
Import ListNotations.
Open Scope string_scope. Open Scope list_scope.

(** ** [path_compare] is a strict order *)
Lemma path_compare_gt_lt : forall a b, path_compare a b = Gt <-> path_compare b a = Lt.
Proof.
  induction a as [|x a IH]; destruct b as [|y b]; cbn [path_compare]; try (split; congruence).
  destruct (String.compare x y) eqn:E.
  - apply str_compare_eq in E. subst y. rewrite str_compare_refl. apply IH.
  - assert (E' : String.compare y x = Gt) by (apply str_compare_gt_lt; exact E).
    rewrite E'. split; congruence.
  - apply str_compare_gt_lt in E. rewrite E. split; congruence.
Qed.

Lemma path_compare_lt_trans : forall a b c,
  path_compare a b = Lt -> path_compare b c = Lt -> path_compare a c = Lt.
Proof.
  induction a as [|x a IH]; destruct b as [|y b]; destruct c as [|z c]; cbn [path_compare];
    try congruence.
  destruct (String.compare x y) eqn:Exy; try discriminate.
  - apply str_compare_eq in Exy. subst y.
    destruct (String.compare x z) eqn:Exz; try congruence. intros H1 H2. eapply IH; eauto.
  - intros _. destruct (String.compare y z) eqn:Eyz; try discriminate.
    + apply str_compare_eq in Eyz. subst z. rewrite Exy. reflexivity.
    + intros _. rewrite (str_compare_lt_trans _ _ _ Exy Eyz). reflexivity.
Qed.

Lemma path_compare_refl a : path_compare a a = Eq.
Proof. apply path_compare_eq. reflexivity. Qed.

(** ** the ordered map has strictly increasing keys *)
Definition key_lt (a b : list string * (N * type_ir)) : Prop := path_compare (fst a) (fst b) = Lt.

Definition keys_sorted (m : items) : Prop := StronglySorted key_lt m.

Lemma items_insert_sorted : forall (m : items) p v,
  keys_sorted m -> keys_sorted (items_insert m p v).
Proof.
  unfold keys_sorted. induction m as [|[k v'] m IH]; intros p v Hs; cbn [items_insert].
  - constructor; constructor.
  - inversion Hs as [|x l Hs' Hall]; subst.
    destruct (path_compare p k) eqn:C.
    + exact Hs.
    + constructor; [exact Hs|]. constructor; [exact C|].
      rewrite Forall_forall in *. intros x Hx. unfold key_lt in *. cbn [fst] in *.
      eapply path_compare_lt_trans; [exact C|]. apply (Hall _ Hx).
    + constructor; [apply IH; exact Hs'|].
      rewrite Forall_forall in *. intros x Hx. apply items_insert_In in Hx as [->|Hx].
      * unfold key_lt. cbn [fst]. apply path_compare_gt_lt. exact C.
      * apply Hall. exact Hx.
Qed.

Lemma gen_loop_sorted r s teq flat : forall l acc m,
  gen_loop r s teq flat l acc = Ok m -> keys_sorted acc -> keys_sorted m.
Proof.
  induction l as [|[id t] l IH]; intros acc m H Hs.
  - cbn in H. inversion H; subst; exact Hs.
  - rewrite gen_loop_cons in H.
    destruct (subs_contains (s_subs s) (t_path t)); [eapply IH; eauto|].
    destruct (namespace (t_path t)) as [|n0 ns]; [eapply IH; eauto|].
    destruct (create_type_ir r s t flat) as [[ir|]|e|msg]; cbn [bind] in H; try discriminate;
      [|eapply IH; eauto].
    destruct (forallb ident_lexb (n0 :: ns)); [|discriminate].
    destruct (items_get acc (t_path t)) as [[other ir']|] eqn:G.
    + destruct (teq id other) as [[|]|e|msg]; cbn [bind] in H; try discriminate. eapply IH; eauto.
    + eapply IH; [exact H|]. apply items_insert_sorted. exact Hs.
Qed.

Lemma keys_sorted_NoDup (m : items) : keys_sorted m -> NoDup (map fst m).
Proof.
  unfold keys_sorted. induction 1 as [|x l Hs IH Hall]; cbn [map]; constructor; [|exact IH].
  intros Hin. apply in_map_iff in Hin as (y & Hy & Hin). rewrite Forall_forall in Hall.
  specialize (Hall _ Hin). unfold key_lt in Hall. rewrite Hy, path_compare_refl in Hall. discriminate.
Qed.

Theorem generate_unique_names r s teq m :
  generate r s teq = Ok m -> keys_sorted m /\ NoDup (map fst m).
Proof.
  unfold generate. intros H.
  apply bind_ok in H as (u & _ & H). apply bind_ok in H as (flat & _ & H).
  assert (Hs : keys_sorted m). { eapply gen_loop_sorted; [exact H|]. constructor. }
  split; [exact Hs|apply keys_sorted_NoDup; exact Hs].
Qed.

(** lookup and membership coincide on the result *)
Lemma items_get_In_iff (m : items) : keys_sorted m ->
  forall p v, items_get m p = Some v <-> In (p, v) m.
Proof.
  unfold keys_sorted. induction 1 as [|[k v'] l Hs IH Hall]; intros p v; cbn [items_get In].
  - split; [discriminate|tauto].
  - destruct (path_eqb k p) eqn:E.
    + apply path_eqb_eq in E. subst k. split.
      * intros H. inversion H; subst. left; reflexivity.
      * intros [H|H]; [inversion H; reflexivity|].
        rewrite Forall_forall in Hall. specialize (Hall _ H). unfold key_lt in Hall. cbn [fst] in Hall.
        rewrite path_compare_refl in Hall. discriminate.
    + rewrite IH. split; [tauto|]. intros [H|H]; [|exact H].
      inversion H; subst. rewrite path_eqb_refl in E. discriminate.
Qed.

(** ** generics: unused = declared minus the parameters occurring in field paths *)
Lemma tpi_eqb_eq a b : tpi_eqb a b = true <-> a = b.
Proof.
  unfold tpi_eqb. destruct a as [i1 o1 x1], b as [i2 o2 x2]. cbn [tpi_id tpi_orig tpi_idx]. split.
  - intros H. apply andb_prop in H as [H H3]. apply andb_prop in H as [H1 H2].
    apply N.eqb_eq in H1, H3. apply String.eqb_eq in H2. subst. reflexivity.
  - intros H. inversion H; subst. rewrite !N.eqb_refl, String.eqb_refl. reflexivity.
Qed.

Lemma existsb_tpi p l : existsb (tpi_eqb p) l = true <-> In p l.
Proof.
  rewrite existsb_exists. split.
  - intros (q & Hq & E). apply tpi_eqb_eq in E. subst. exact Hq.
  - intros H. exists p. split; [exact H|apply tpi_eqb_eq; reflexivity].
Qed.

Lemma mark_used_In p unused used : In p (mark_used unused used) <-> In p unused /\ ~ In p used.
Proof.
  unfold mark_used. rewrite filter_In. rewrite negb_true_iff. split.
  - intros [H1 H2]. split; [exact H1|]. intros H. apply existsb_tpi in H. congruence.
  - intros [H1 H2]. split; [exact H1|]. destruct (existsb (tpi_eqb p) used) eqn:E; [|reflexivity].
    apply existsb_tpi in E. contradiction.
Qed.

Definition used_in (fs : list field_ir) (p : tparam_ir) : Prop :=
  exists f, In f fs /\ In p (parent_params (fi_path f)).

Lemma cck_unused r s fs params unused k u :
  create_composite_ir_kind r s fs params unused = Ok (k, u) ->
  forall p, In p u <-> In p unused /\ ~ used_in (ckind_fields k) p.
Proof.
  unfold create_composite_ir_kind. intros H p.
  destruct fs as [|f0 fs0].
  { inversion H; subst. cbn [ckind_fields]. split; [|tauto]. intros Hp. split; [exact Hp|].
    intros (f & [] & _). }
  destruct (negb (all_named (f0 :: fs0) || all_unnamed (f0 :: fs0))); [discriminate|].
  destruct (all_named (f0 :: fs0)).
  - apply bind_ok in H as (l & _ & H). inversion H; subst. rewrite mark_used_In. cbn [ckind_fields].
    split; intros [H1 H2]; (split; [exact H1|]); intros Hu; apply H2.
    + destruct Hu as (f & Hf & Hp). apply in_map_iff in Hf as (x & <- & Hx).
      apply in_flat_map. exists x. split; assumption.
    + apply in_flat_map in Hu as (x & Hx & Hp). exists (snd x). split; [apply in_map; exact Hx|exact Hp].
  - apply bind_ok in H as (l & _ & H). inversion H; subst. rewrite mark_used_In. cbn [ckind_fields].
    split; intros [H1 H2]; (split; [exact H1|]); intros Hu; apply H2.
    + destruct Hu as (f & Hf & Hp). apply in_flat_map. exists f. split; assumption.
    + apply in_flat_map in Hu as (x & Hx & Hp). exists x. split; assumption.
Qed.

Lemma variants_ir_unused r s params : forall vs unused l u,
  variants_ir r s params vs unused = Ok (l, u) ->
  forall p, In p u <-> In p unused /\
                       ~ used_in (flat_map (fun v => ckind_fields (ci_kind (snd v))) l) p.
Proof.
  induction vs as [|v vs IH]; intros unused l u H p.
  - cbn in H. inversion H; subst. cbn [flat_map]. split; [|tauto]. intros Hp. split; [exact Hp|].
    intros (f & [] & _).
  - rewrite variants_ir_cons in H. apply bind_ok in H as (vn & _ & H).
    apply bind_ok in H as ([k u1] & Hk & H). apply bind_ok in H as ([l' u'] & Hrest & H).
    cbn [fst snd] in *. inversion H; subst. rewrite (IH _ _ _ Hrest p).
    rewrite (cck_unused _ _ _ _ _ _ _ Hk p). cbn [flat_map snd ci_kind]. unfold used_in.
    split.
    + intros [[H1 H2] H3]. split; [exact H1|]. intros (f & Hf & Hp).
      apply in_app_or in Hf as [Hf|Hf]; [apply H2|apply H3]; exists f; split; assumption.
    + intros [H1 H2]. split; [split; [exact H1|]|]; intros (f & Hf & Hp); apply H2; exists f;
        (split; [apply in_or_app|exact Hp]); [left|right]; exact Hf.
Qed.

Lemma create_type_ir_unused r s t flat ir :
  create_type_ir r s t flat = Ok (Some ir) ->
  ti_params ir = params_from_scale_info (t_params t) /\
  forall p, In p (ti_unused ir) <-> In p (ti_params ir) /\ ~ used_in (kind_fields (ti_kind ir)) p.
Proof.
  intros H. rewrite create_type_ir_eq in H.
  destruct (negb (is_composite_or_variant (t_def t))); [discriminate|]. cbv zeta in H.
  destruct (path_ident (t_path t)) as [nm|]; [|discriminate].
  apply bind_ok in H as (name & _ & H).
  apply bind_ok in H as ([[kind cdac] unused] & Hk & H).
  apply bind_ok in H as (d & _ & H). inversion H; subst; clear H. cbn [ti_params ti_unused ti_kind].
  split; [reflexivity|].
  destruct (t_def t) as [fs|vs| | | | | | ]; try discriminate.
  - apply bind_ok in Hk as ([k u] & Hc & Hk). cbn [fst snd] in Hk. inversion Hk; subst.
    cbn [kind_fields ci_kind]. eapply cck_unused; eauto.
  - apply bind_ok in Hk as ([l u] & Hc & Hk). cbn [fst snd] in Hk. inversion Hk; subst.
    cbn [kind_fields]. eapply variants_ir_unused; eauto.
Qed.

Lemma used_in_dec fs p : used_in fs p \/ ~ used_in fs p.
Proof.
  destruct (existsb (fun f => existsb (tpi_eqb p) (parent_params (fi_path f))) fs) eqn:E.
  - left. apply existsb_exists in E as (f & Hf & E). apply existsb_tpi in E. exists f. auto.
  - right. intros (f & Hf & Hp).
    assert (E' : existsb (fun f => existsb (tpi_eqb p) (parent_params (fi_path f))) fs = true).
    { apply existsb_exists. exists f. split; [exact Hf|apply existsb_tpi; exact Hp]. }
    congruence.
Qed.

Theorem generics_used r s t flat ir :
  create_type_ir r s t flat = Ok (Some ir) ->
  (forall p, In p (ti_params ir) ->
             In p (ti_unused ir) \/ used_in (kind_fields (ti_kind ir)) p) /\
  (forall p, In p (ti_unused ir) ->
             In p (ti_params ir) /\ ~ used_in (kind_fields (ti_kind ir)) p).
Proof.
  intros H. destruct (create_type_ir_unused _ _ _ _ _ H) as (_ & Hu). split.
  - intros p Hp. destruct (used_in_dec (kind_fields (ti_kind ir)) p) as [Hd|Hd]; [right; exact Hd|].
    left. apply Hu. split; assumption.
  - intros p Hp. apply Hu. exact Hp.
Qed.

(** the marker lists every unused parameter *)
Lemma sep_by_In (sep : tokens) : forall (l : list tokens) ts x, In ts l -> In x ts -> In x (sep_by sep l).
Proof.
  induction l as [|t0 l IH]; intros ts x Hts Hx; [destruct Hts|].
  destruct l as [|t1 l'].
  - destruct Hts as [->|[]]. exact Hx.
  - change (sep_by sep (t0 :: t1 :: l')) with (t0 ++ sep ++ sep_by sep (t1 :: l')).
    destruct Hts as [->|Hts]; [apply in_or_app; left; exact Hx|].
    apply in_or_app; right. apply in_or_app; right. eapply IH; eauto.
Qed.

Theorem phantom_lists_unused unused p :
  In p unused -> exists toks, phantom_tokens unused = Some toks /\ In (tpi_name p) toks.
Proof.
  intros Hp. destruct unused as [|a [|b l]]; [destruct Hp| |].
  - destruct Hp as [->|[]]. eexists; split; [reflexivity|].
    apply in_or_app; right. right; left; reflexivity.
  - eexists. split; [reflexivity|].
    apply in_or_app; right. apply in_or_app; right. apply in_or_app; left.
    apply sep_by_In with (ts := [tpi_name p]); [|left; reflexivity].
    apply in_map_iff. exists p. split; [reflexivity|exact Hp].
Qed.

(** ** every path rooted at the types module names an emitted item *)
Definition spath_head (p : spath) : option string :=
  if sp_leading p then Some ":"
  else match sp_segs p with (id, _) :: _ => Some id | [] => None end.

Lemma print_spath_head p : hd_error (print_spath p) = spath_head p.
Proof.
  unfold print_spath, spath_head. cbn [print_gtype]. destruct (sp_leading p); [reflexivity|].
  cbn [app]. destruct (sp_segs p) as [|[id a] l]; reflexivity.
Qed.

Lemma replace_spath_head repl p : spath_head (replace_spath repl p) = spath_head p.
Proof.
  unfold spath_head, replace_spath. cbn [sp_leading sp_segs]. destruct (sp_leading p); [reflexivity|].
  destruct (sp_segs p) as [|[id a] l]; reflexivity.
Qed.

Lemma subs_get_In : forall (su : substitutes) p sub, subs_get su p = Some sub -> exists k, In (k, sub) su.
Proof.
  induction su as [|[k v] su IH]; intros p sub H; cbn [subs_get] in H; [discriminate|].
  destruct (path_eqb k p).
  - inversion H; subst. exists k. left; reflexivity.
  - destruct (IH _ _ H) as (k' & Hk'). exists k'. right; exact Hk'.
Qed.

(** user supplied paths never start with the root ident (DESIGN 3.2) *)
Definition root_fresh (s : settings) : Prop :=
  s_root s <> ":" /\
  hd_error (alloc_tokens (s_alloc s)) <> Some (s_root s) /\
  forall k sub, In (k, sub) (s_subs s) -> spath_head (su_path sub) <> Some (s_root s).

Lemma prelude_head alloc root i toks :
  root <> ":" -> hd_error alloc <> Some root ->
  assoc_str (prelude_table alloc) i = Some toks -> hd_error toks <> Some root.
Proof.
  intros Hc Ha. unfold prelude_table. cbn [assoc_str].
  assert (Habs : forall l, hd_error (abs_path l) <> Some root).
  { intros [|x l]; cbn; [discriminate|]. intros E. inversion E. congruence. }
  assert (Hal : forall l, hd_error (alloc ++ abs_path l) <> Some root).
  { intros l. destruct alloc as [|a al]; [apply Habs|exact Ha]. }
  assert (Habs' : forall l, hd_error (":" :: l) <> Some root).
  { intros l E. inversion E. congruence. }
  assert (Hal' : forall l, hd_error (alloc ++ ":" :: l) <> Some root).
  { intros l. destruct alloc as [|a al]; [apply Habs'|exact Ha]. }
  repeat match goal with
         | |- (if String.eqb i ?k then _ else _) = _ -> _ =>
             destruct (String.eqb i k);
             [intros E; inversion E; subst; first [apply Habs|apply Hal|apply Habs'|apply Hal']|]
         end.
  discriminate.
Qed.

Section Nodes.
  Variable r : registry.
  Variable s : settings.
  Hypothesis Hfresh : root_fresh s.

  (** a [TPath] node whose tokens start with the root ident is the generated path of a
      namespaced, non-substituted struct / enum entry of the registry *)
  Definition item_entry (p : list string) : Prop :=
    exists id t, resolve r id = Some t /\ t_path t = p /\
                 is_composite_or_variant (t_def t) = true /\
                 subs_get (s_subs s) p = None /\ (exists a b l, p = a :: b :: l).

  Definition node_ok (t : tpath) : Prop :=
    forall ptoks params, In (TPath ptoks params) (subpaths t) ->
    hd_error ptoks = Some (s_root s) ->
    exists p, ptoks = rel_path (s_root s :: p) /\ item_entry p.

  Lemma node_ok_children ptoks params :
    (hd_error ptoks = Some (s_root s) -> exists p, ptoks = rel_path (s_root s :: p) /\ item_entry p) ->
    (forall x, In x params -> node_ok x) -> node_ok (TPath ptoks params).
  Proof.
    intros Hself Hch pt ps Hin Hhd. cbn [subpaths] in Hin. destruct Hin as [E|Hin].
    - inversion E; subst. auto.
    - apply in_flat_map in Hin as (x & Hx & Hin). exact (Hch x Hx pt ps Hin Hhd).
  Qed.

  Lemma maybe_subst_nodes id t params x :
    resolve r id = Some t -> is_composite_or_variant (t_def t) = true ->
    (forall y, In y params -> node_ok y) ->
    type_path_maybe_with_substitutes s (t_path t) params = Ok x -> node_ok x.
  Proof.
    destruct Hfresh as (Hcolon & Halloc & Hsubs).
    intros Hr Hcv Hps. unfold type_path_maybe_with_substitutes, for_path_with_params.
    destruct (subs_get (s_subs s) (t_path t)) as [sub|] eqn:Esub.
    - destruct (subs_get_In _ _ _ Esub) as (k & Hk). pose proof (Hsubs _ _ Hk) as Hhead.
      destruct (su_map sub) as [|m].
      + intros E. inversion E; subst. apply node_ok_children; [|exact Hps].
        rewrite print_spath_head. intros Hh. contradiction.
      + match goal with
        | |- match ?sel with [] => _ | _ => _ end = _ -> _ => destruct sel as [|y0 sel']
        end.
        * intros E. inversion E; subst. apply node_ok_children; [|intros y []].
          rewrite print_spath_head. intros Hh. contradiction.
        * intros E. apply bind_ok in E as (repl & _ & E). inversion E; subst.
          apply node_ok_children; [|intros y []].
          rewrite print_spath_head, replace_spath_head. intros Hh. contradiction.
    - intros E. apply bind_ok in E as (toks & Ht & E). inversion E; subst.
      apply node_ok_children; [|exact Hps]. intros Hh.
      unfold from_type_def_path in Ht. destruct (t_path t) as [|a [|b l]] eqn:Ep; [discriminate| |].
      + destruct (assoc_str (prelude_table (alloc_tokens (s_alloc s))) a) as [toks'|] eqn:Ea; [|discriminate].
        inversion Ht; subst. exfalso. exact (prelude_head _ _ _ _ Hcolon Halloc Ea Hh).
      + destruct (forallb path_seg_okb (a :: b :: l)); [|discriminate]. inversion Ht; subst.
        exists (a :: b :: l). split; [reflexivity|]. exists id, t.
        split; [exact Hr|]. split; [exact Ep|]. split; [exact Hcv|]. split; [exact Esub|eauto].
  Qed.

  Lemma cow_step_entry id t0 t :
    resolve r id = Some t0 -> cow_step r t0 = Ok t -> exists id', resolve r id' = Some t.
  Proof.
    intros Hr. rewrite cow_step_eq. destruct (is_cow (path_ident (t_path t0))).
    - destruct (t_params t0) as [|p0 ps]; [discriminate|]. destruct (tp_ty p0) as [inner|]; [|discriminate].
      unfold resolve_type. destruct (resolve r inner) as [t'|] eqn:E; [|discriminate].
      intros H. inversion H; subst. eauto.
    - intros H. inversion H; subst. eauto.
  Qed.

  Lemma node_ok_wrap (t x : tpath) :
    (forall pt ps, TPath pt ps <> t) -> subpaths t = t :: subpaths x -> node_ok x -> node_ok t.
  Proof.
    intros Hne Hs Hx pt ps Hin Hh. rewrite Hs in Hin. destruct Hin as [E|Hin].
    - exfalso. eapply Hne; eauto.
    - exact (Hx pt ps Hin Hh).
  Qed.

  Lemma resolve_rec_nodes : forall fuel id is_field parents orig t,
    resolve_rec r s fuel id is_field parents orig = Ok t -> node_ok t.
  Proof.
    induction fuel as [|fuel IH]; intros id is_field parents orig t H; [discriminate|].
    rewrite resolve_rec_S in H.
    destruct (find_parent parents id orig) as [p|].
    { inversion H; subst. intros pt ps [E|[]]. discriminate. }
    apply bind_ok in H as (t0 & Ht0 & H). apply bind_ok in H as (t1 & Hcs & H).
    apply bind_ok in H as (params & Hps & H).
    unfold resolve_type in Ht0. destruct (resolve r id) as [t0'|] eqn:Er; [|discriminate].
    inversion Ht0; subst t0'. destruct (cow_step_entry _ _ _ Er Hcs) as (id' & Hr1).
    assert (Hparams : forall y, In y params -> node_ok y).
    { intros y Hy. destruct (mapM_ok_In _ _ _ _ Hps Hy) as (c & _ & Hc). eapply IH; eauto. }
    unfold resolve_def in H.
    destruct (t_def t1) as [fs|vs|e|len e|es|p|e|store order] eqn:Ed.
    - eapply maybe_subst_nodes; eauto. rewrite Ed. reflexivity.
    - eapply maybe_subst_nodes; eauto. rewrite Ed. reflexivity.
    - apply bind_ok in H as (i & Hi & H). inversion H; subst.
      apply (node_ok_wrap (TVec i) i); [discriminate|reflexivity|eapply IH; eauto].
    - apply bind_ok in H as (i & Hi & H). inversion H; subst.
      apply (node_ok_wrap (TArray len i) i); [discriminate|reflexivity|eapply IH; eauto].
    - apply bind_ok in H as (l & Hl & H). inversion H; subst.
      intros pt ps Hin Hh. cbn [subpaths] in Hin. destruct Hin as [E|Hin]; [discriminate|].
      apply in_flat_map in Hin as (x & Hx & Hin).
      destruct (mapM_ok_In _ _ _ _ Hl Hx) as (c & _ & Hc).
      exact (IH _ _ _ _ _ Hc pt ps Hin Hh).
    - inversion H; subst. intros pt ps [E|[]]. discriminate.
    - apply bind_ok in H as (i & Hi & H). destruct (s_compact s) as [c|]; [|discriminate].
      inversion H; subst.
      apply (node_ok_wrap (TCompact i is_field c) i); [discriminate|reflexivity|eapply IH; eauto].
    - destruct (s_bits s) as [b|]; [|discriminate].
      apply bind_ok in H as (o & Ho & H). apply bind_ok in H as (st & Hst & H). inversion H; subst.
      intros pt ps Hin Hh. cbn [subpaths] in Hin. destruct Hin as [E|Hin]; [discriminate|].
      apply in_app_or in Hin as [Hin|Hin].
      + exact (IH _ _ _ _ _ Ho pt ps Hin Hh).
      + exact (IH _ _ _ _ _ Hst pt ps Hin Hh).
  Qed.

  Lemma field_ir_of_nodes params f fi : field_ir_of r s params f = Ok fi -> node_ok (fi_path fi).
  Proof.
    unfold field_ir_of, resolve_field_type_path. intros H. apply bind_ok in H as (p & Hp & H).
    inversion H; subst. cbn [fi_path]. eapply resolve_rec_nodes; eauto.
  Qed.

  Lemma cck_nodes fs params unused k u :
    create_composite_ir_kind r s fs params unused = Ok (k, u) ->
    forall f, In f (ckind_fields k) -> node_ok (fi_path f).
  Proof.
    unfold create_composite_ir_kind. intros H f Hf.
    destruct fs as [|f0 fs0]; [inversion H; subst; destruct Hf|].
    destruct (negb (all_named (f0 :: fs0) || all_unnamed (f0 :: fs0))); [discriminate|].
    destruct (all_named (f0 :: fs0)).
    - apply bind_ok in H as (l & Hl & H). inversion H; subst. cbn [ckind_fields] in Hf.
      apply in_map_iff in Hf as (x & <- & Hx). destruct (mapM_ok_In _ _ _ _ Hl Hx) as (f1 & _ & Hf1).
      apply bind_ok in Hf1 as (nm & _ & Hf1). apply bind_ok in Hf1 as (fi & Hfi & Hf1).
      inversion Hf1; subst. cbn [snd]. eapply field_ir_of_nodes; eauto.
    - apply bind_ok in H as (l & Hl & H). inversion H; subst. cbn [ckind_fields] in Hf.
      destruct (mapM_ok_In _ _ _ _ Hl Hf) as (f1 & _ & Hf1). eapply field_ir_of_nodes; eauto.
  Qed.

  Lemma variants_ir_nodes params : forall vs unused l u,
    variants_ir r s params vs unused = Ok (l, u) ->
    forall f, In f (flat_map (fun v => ckind_fields (ci_kind (snd v))) l) -> node_ok (fi_path f).
  Proof.
    induction vs as [|v vs IH]; intros unused l u H f Hf.
    - cbn in H. inversion H; subst. destruct Hf.
    - rewrite variants_ir_cons in H. apply bind_ok in H as (vn & _ & H).
      apply bind_ok in H as ([k u1] & Hk & H). apply bind_ok in H as ([l' u'] & Hrest & H).
      cbn [fst snd] in *. inversion H; subst. cbn [flat_map snd ci_kind] in Hf.
      apply in_app_or in Hf as [Hf|Hf]; [eapply cck_nodes; eauto|eapply IH; eauto].
  Qed.

  Lemma create_type_ir_nodes t flat ir :
    create_type_ir r s t flat = Ok (Some ir) ->
    forall f, In f (kind_fields (ti_kind ir)) -> node_ok (fi_path f).
  Proof.
    intros H. rewrite create_type_ir_eq in H.
    destruct (negb (is_composite_or_variant (t_def t))); [discriminate|]. cbv zeta in H.
    destruct (path_ident (t_path t)) as [nm|]; [|discriminate].
    apply bind_ok in H as (name & _ & H).
    apply bind_ok in H as ([[kind cdac] unused] & Hk & H).
    apply bind_ok in H as (d & _ & H). inversion H; subst; clear H. cbn [ti_kind].
    destruct (t_def t) as [fs|vs| | | | | | ]; try discriminate.
    - apply bind_ok in Hk as ([k u] & Hc & Hk). cbn [fst snd] in Hk. inversion Hk; subst.
      cbn [kind_fields ci_kind]. eapply cck_nodes; eauto.
    - apply bind_ok in Hk as ([l u] & Hc & Hk). cbn [fst snd] in Hk. inversion Hk; subst.
      cbn [kind_fields]. eapply variants_ir_nodes; eauto.
  Qed.

  (** the loop leaves the path of every namespaced, non-substituted struct / enum occupied *)
  Variable teq : N -> N -> result bool.

  Lemma create_type_ir_some t flat o :
    create_type_ir r s t flat = Ok o -> is_composite_or_variant (t_def t) = true -> o <> None.
  Proof.
    intros H Hcv. rewrite create_type_ir_eq, Hcv in H. cbn [negb] in H. cbv zeta in H.
    destruct (path_ident (t_path t)) as [nm|]; [|discriminate].
    apply bind_ok in H as (name & _ & H).
    apply bind_ok in H as ([[kind cdac] unused] & Hk & H).
    apply bind_ok in H as (d & _ & H). inversion H; subst. discriminate.
  Qed.

  Lemma gen_loop_occupies flat : forall l acc m,
    gen_loop r s teq flat l acc = Ok m ->
    forall id t, In (id, t) l -> is_composite_or_variant (t_def t) = true ->
    subs_get (s_subs s) (t_path t) = None -> (exists a b p, t_path t = a :: b :: p) ->
    items_get m (t_path t) <> None.
  Proof.
    induction l as [|[id0 t0] l IH]; intros acc m H id t Hin Hcv Hsub Hp; [destruct Hin|].
    rewrite gen_loop_cons in H.
    destruct Hin as [E|Hin].
    - inversion E; subst id0 t0.
      assert (Hsc : subs_contains (s_subs s) (t_path t) = false).
      { unfold subs_contains. rewrite Hsub. destruct (t_path t); reflexivity. }
      rewrite Hsc in H. destruct Hp as (a & b & p & Ep).
      assert (Hns : namespace (t_path t) = a :: removelast (b :: p)) by (rewrite Ep; reflexivity).
      rewrite Hns in H.
      destruct (create_type_ir r s t flat) as [o|e|msg] eqn:Ec; cbn [bind] in H; try discriminate.
      pose proof (create_type_ir_some _ _ _ Ec Hcv) as Ho.
      destruct o as [ir|]; [|congruence].
      destruct (forallb ident_lexb (a :: removelast (b :: p))); [|discriminate].
      destruct (items_get acc (t_path t)) as [[other ir']|] eqn:G.
      + destruct (teq id other) as [[|]|e|msg]; cbn [bind] in H; try discriminate.
        rewrite (gen_loop_keeps _ _ _ _ _ _ _ _ _ H G). discriminate.
      + assert (G' : items_get (items_insert acc (t_path t) (id, ir)) (t_path t) = Some (id, ir)).
        { rewrite items_get_insert_absent by exact G. rewrite path_eqb_refl. reflexivity. }
        rewrite (gen_loop_keeps _ _ _ _ _ _ _ _ _ H G'). discriminate.
    - assert (Hrec : forall acc', gen_loop r s teq flat l acc' = Ok m -> items_get m (t_path t) <> None).
      { intros acc' H'. eapply IH; eauto. }
      destruct (subs_contains (s_subs s) (t_path t0)); [eapply Hrec; eauto|].
      destruct (namespace (t_path t0)) as [|n0 ns]; [eapply Hrec; eauto|].
      destruct (create_type_ir r s t0 flat) as [[ir|]|e|msg]; cbn [bind] in H; try discriminate;
        [|eapply Hrec; eauto].
      destruct (forallb ident_lexb (n0 :: ns)); [|discriminate].
      destruct (items_get acc (t_path t0)) as [[other ir']|].
      + destruct (teq id0 other) as [[|]|e|msg]; cbn [bind] in H; try discriminate. eapply Hrec; eauto.
      + eapply Hrec; eauto.
  Qed.

  Theorem paths_resolve m :
    generate r s teq = Ok m ->
    forall p0 id ir, items_get m p0 = Some (id, ir) ->
    forall f, In f (kind_fields (ti_kind ir)) ->
    forall ptoks params, In (TPath ptoks params) (subpaths (fi_path f)) ->
    hd_error ptoks = Some (s_root s) ->
    exists p, ptoks = rel_path (s_root s :: p) /\ items_get m p <> None.
  Proof.
    intros Hg p0 id ir Hm f Hf ptoks params Hin Hh.
    destruct (generate_items_come_from_entries _ _ _ _ _ _ _ Hg Hm) as (t & flat & _ & _ & _ & _ & Hc).
    destruct (create_type_ir_nodes _ _ _ Hc f Hf ptoks params Hin Hh)
      as (p & Hp & id' & t' & Hr & Hpath & Hcv & Hsub & Hshape).
    exists p. split; [exact Hp|]. subst p.
    unfold generate in Hg. apply bind_ok in Hg as (u & _ & Hg). apply bind_ok in Hg as (flat' & _ & Hg).
    destruct (resolve_In _ _ _ Hr) as (i & Hi).
    eapply gen_loop_occupies; eauto.
  Qed.
End Nodes.

(** ** child modules of one module are keyed by strictly increasing idents *)
Lemma insert_str_sorted x : forall l,
  StronglySorted str_lt l -> StronglySorted str_lt (insert_str x l).
Proof.
  induction l as [|y l IH]; intros Hs; cbn [insert_str].
  - constructor; constructor.
  - inversion Hs as [|y0 l0 Hs' Hall]; subst.
    destruct (String.compare x y) eqn:C.
    + exact Hs.
    + constructor; [exact Hs|]. constructor; [exact C|].
      rewrite Forall_forall in *. intros z Hz. eapply str_lt_trans; [exact C|]. apply Hall. exact Hz.
    + constructor; [apply IH; exact Hs'|].
      rewrite Forall_forall in *. intros z Hz. apply insert_str_In in Hz as [->|Hz].
      * apply str_compare_gt_lt. exact C.
      * apply Hall. exact Hz.
Qed.

Theorem child_names_unique (es : list entry) :
  StronglySorted str_lt (child_names es) /\ NoDup (child_names es).
Proof.
  assert (Hs : StronglySorted str_lt (child_names es)).
  { unfold child_names. induction es as [|e es IH]; cbn [fold_right]; [constructor|].
    destruct (fst e) as [|h [|a tl]]; try exact IH. apply insert_str_sorted. exact IH. }
  split; [exact Hs|].
  induction Hs as [|x l Hs IH Hall]; constructor; [|exact IH].
  intros Hin. rewrite Forall_forall in Hall. exact (str_lt_irrefl x (Hall _ Hin)).
Qed.
