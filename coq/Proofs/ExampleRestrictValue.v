(** C17, restriction half, example values: the example generated from a word stream on the
    restricted registry at [pi id] is THE example generated from the same word stream on the full
    registry at [id]; and the converse typing direction on a closed restricted registry.

    - RENUMBERING ([resolve_go_renumber]): the whole run of the example transformer commutes with a
      renumbering [pi] - same value, same remaining words, the cache keys renamed, the two errors
      that carry an id carry [pi id].  The cache is only asked for the entry of a key and only
      written at a key, so renaming its keys by the injective [pi] changes nothing.
    - PREFIX ([resolve_go_prefix]): a successful run on a prefix [r1] is the same successful run
      on [r1 ++ r2], also with more fuel.  No closedness: a run that succeeded never looked up an
      id the prefix does not have.
    - TYPING ([has_type_fuel_closed_prefix]): on a CLOSED prefix the checker of the whole registry
      and the checker of the prefix agree at every fuel (typing only follows reachable ids). *)
From Coq Require Import List NArith ZArith Bool String Lia.
From V Require Import Base.Util Model.Registry Model.RngWords Model.ExampleValue Model.Renumber
  Model.WellFormed Proofs.RenumberPerm Proofs.ExampleValueProofs Proofs.ExampleRestrict.
Import ListNotations.
Open Scope N_scope.

Lemma forallb_map_x {A B} (f : B -> bool) (h : A -> B) l : forallb f (map h l) = forallb (fun x => f (h x)) l.
Proof. induction l as [|a l IH]; [reflexivity|]. cbn [map forallb]. rewrite IH. reflexivity. Qed.

Lemma forallb_ext_x {A} (f h : A -> bool) l : (forall x, f x = h x) -> forallb f l = forallb h l.
Proof. intros H. induction l as [|a l IH]; [reflexivity|]. cbn [forallb]. rewrite H, IH. reflexivity. Qed.

Lemma nat_iter_S {A} n (f : A -> A) x : Nat.iter (S n) f x = f (Nat.iter n f x).
Proof. reflexivity. Qed.

(** ** the monad under a renaming of the cache keys *)
Section Keys.
  Variable pi : N -> N.
  Hypothesis Hinj : forall i j, pi i = pi j -> i = j.

  Definition map_cache (c : cache) : cache := map (fun ke => (pi (fst ke), snd ke)) c.
  Definition mapst (s : st) : st := (map_cache (fst s), snd s).
  Definition map_xerr (e : xerr) : xerr :=
    match e with
    | XRecursive i => XRecursive (pi i)
    | XNotFound i => XNotFound (pi i)
    | _ => e
    end.
  Definition mapres {A} (x : xres (A * st)) : xres (A * st) :=
    match x with
    | XOk (a, s) => XOk (a, mapst s)
    | XErr e => XErr (map_xerr e)
    | XPanic m => XPanic m
    end.

  Lemma pi_eqb' a b : (pi a =? pi b) = (a =? b).
  Proof.
    destruct (a =? b) eqn:E.
    - apply N.eqb_eq in E. subst. apply N.eqb_refl.
    - apply N.eqb_neq. intros H. apply Hinj in H. apply N.eqb_neq in E. contradiction.
  Qed.

  Lemma cache_get_map c id : cache_get (map_cache c) (pi id) = cache_get c id.
  Proof.
    induction c as [|[k e] c IH]; [reflexivity|].
    cbn [map_cache map cache_get fst snd]. rewrite pi_eqb'. fold (map_cache c). rewrite IH. reflexivity.
  Qed.

  Lemma cache_set_map id e c : cache_set (pi id) e (map_cache c) = map_cache (cache_set id e c).
  Proof.
    induction c as [|[k e'] c IH]; [reflexivity|].
    cbn [map_cache map cache_set fst snd]. rewrite pi_eqb'. fold (map_cache c).
    destruct (k =? id); [reflexivity|]. rewrite IH. reflexivity.
  Qed.

  (** [x'] on the renamed state does what [x] does on the original one *)
  Definition equiv {A} (x' x : M A) : Prop := forall s, x' (mapst s) = mapres (x s).

  Lemma equiv_ret {A} (a : A) : equiv (mret a) (mret a).
  Proof. intros s. reflexivity. Qed.

  Lemma equiv_panic {A} m : equiv (@mpanic A m) (mpanic m).
  Proof. intros s. reflexivity. Qed.

  Lemma equiv_fail_empty {A} : equiv (@mfail A XEmptyEnum) (mfail XEmptyEnum).
  Proof. intros s. reflexivity. Qed.

  Lemma equiv_fail_mixed {A} : equiv (@mfail A XMixedFields) (mfail XMixedFields).
  Proof. intros s. reflexivity. Qed.

  Lemma equiv_draw {A} (d : rng A) : equiv (mdraw d) (mdraw d).
  Proof. intros [c ws]. unfold mdraw, mapst. cbn [fst snd]. destruct (d ws); reflexivity. Qed.

  Lemma equiv_bind {A B} (x' x : M A) (f' f : A -> M B) :
    equiv x' x -> (forall a, equiv (f' a) (f a)) -> equiv (mbind x' f') (mbind x f).
  Proof.
    intros Hx Hf s. unfold mbind. rewrite Hx.
    destruct (x s) as [[a s1]|e|m]; cbn [mapres]; [apply Hf|reflexivity|reflexivity].
  Qed.

  Lemma equiv_mmapM {X Y B} (g : X -> Y) (f' : Y -> M B) (f : X -> M B) l :
    (forall x, In x l -> equiv (f' (g x)) (f x)) -> equiv (mmapM f' (map g l)) (mmapM f l).
  Proof.
    induction l as [|x l IH]; intros H; cbn [map mmapM]; [apply equiv_ret|].
    apply equiv_bind; [apply H; left; reflexivity|]. intros y.
    apply equiv_bind; [apply IH; intros x' Hx'; apply H; right; exact Hx'|]. intros ys. apply equiv_ret.
  Qed.

  Lemma equiv_mrepeatN {A} len (f' f : M A) : equiv f' f -> equiv (mrepeatN len f') (mrepeatN len f).
  Proof.
    intros Hf s. unfold mrepeatN. rewrite !N2Nat.inj_iter.
    assert (E : forall n, Nat.iter n (mrepeat_step f') (XOk ([], mapst s)) =
                          mapres (Nat.iter n (mrepeat_step f) (XOk ([], s)))).
    { induction n as [|n IH]; [reflexivity|]. rewrite !nat_iter_S. rewrite IH.
      destruct (Nat.iter n (mrepeat_step f) (XOk ([], s))) as [[xs s0]|e|m]; cbn [mapres mrepeat_step];
        [|reflexivity|reflexivity].
      rewrite Hf. destruct (f s0) as [[x s1]|e|m]; reflexivity. }
    rewrite E. destruct (Nat.iter (N.to_nat len) (mrepeat_step f) (XOk ([], s))) as [[xs s0]|e|m]; reflexivity.
  Qed.

  Lemma equiv_choose_unwrap {A} (l : list A) : equiv (choose_unwrap l) (choose_unwrap l).
  Proof.
    unfold choose_unwrap. apply equiv_bind; [apply equiv_draw|].
    intros [a|]; [apply equiv_ret|apply equiv_panic].
  Qed.

  Lemma equiv_prim p : equiv (prim_example p) (prim_example p).
  Proof.
    destruct p; cbn [prim_example];
      (apply equiv_bind; [first [apply equiv_draw|apply equiv_choose_unwrap]|intros a; apply equiv_ret]).
  Qed.

  Section Rec.
    Variable rec' rec : N -> M value.
    Hypothesis Hrec : forall i, equiv (rec' (pi i)) (rec i).

    Lemma equiv_fields fs :
      equiv (fields_example rec' (map (fun f => (fst f, pi (snd f))) fs)) (fields_example rec fs).
    Proof.
      unfold fields_example. rewrite !forallb_map_x. cbn [fst].
      destruct (forallb (fun f => is_some (fst f)) fs); destruct (forallb (fun f => is_none (fst f)) fs).
      - apply equiv_ret.
      - apply equiv_bind; [|intros l; apply equiv_ret].
        apply equiv_mmapM. intros f _. unfold named_field. cbn [fst snd].
        apply equiv_bind; [apply Hrec|]. intros v. destruct (fst f); [apply equiv_ret|apply equiv_panic].
      - apply equiv_bind; [|intros l; apply equiv_ret].
        apply (equiv_mmapM (fun f : option string * N => (fst f, pi (snd f)))
                           (fun f => rec' (snd f)) (fun f => rec (snd f))).
        intros f _. cbn [snd]. apply Hrec.
      - apply equiv_fail_mixed.
    Qed.

    Lemma field_pairs_rename fs :
      field_pairs (map (rename_field pi) fs) = map (fun f => (fst f, pi (snd f))) (field_pairs fs).
    Proof. unfold field_pairs. rewrite !map_map. reflexivity. Qed.

    Lemma choose_map {A B} (g : A -> B) (l : list A) ws :
      choose (map g l) ws =
      match choose l ws with Drawn o ws' => Drawn (option_map g o) ws' | NoWords => NoWords end.
    Proof.
      destruct l as [|a l]; [reflexivity|].
      unfold choose. cbn [map]. unfold rng_bind, rng_ret.
      change (List.length (g a :: map g l)) with (List.length (map g (a :: l))). rewrite map_length.
      destruct (gen_index (N.of_nat (List.length (a :: l))) ws) as [i ws'|]; [|reflexivity].
      change (g a :: map g l) with (map g (a :: l)). rewrite nth_error_map. reflexivity.
    Qed.

    Lemma equiv_ty_example t : equiv (ty_example rec' (rename_ty pi t)) (ty_example rec t).
    Proof.
      unfold ty_example. cbn [rename_ty t_def].
      destruct (t_def t) as [fs|vs|e|len e|ts|p|e|st o]; cbn [rename_def].
      - apply equiv_bind; [|intros c; apply equiv_ret]. rewrite field_pairs_rename. apply equiv_fields.
      - intros s. unfold mbind at 1 3. unfold mdraw. destruct s as [c ws]. cbn [mapst fst snd].
        rewrite choose_map. destruct (choose vs ws) as [[var|] ws'|]; cbn [option_map mapres].
        + change (map_cache c, ws') with (mapst (c, ws')).
          cbn [rename_variant v_fields v_name].
          apply (equiv_bind (fields_example rec' (field_pairs (map (rename_field pi) (v_fields var))))
                            (fields_example rec (field_pairs (v_fields var)))).
          * rewrite field_pairs_rename. apply equiv_fields.
          * intros c0. apply equiv_ret.
        + reflexivity.
        + reflexivity.
      - apply equiv_bind; [apply Hrec|]. intros v1. apply equiv_bind; [apply Hrec|]. intros v2. apply equiv_ret.
      - apply equiv_bind; [apply equiv_mrepeatN; apply Hrec|]. intros vs. apply equiv_ret.
      - apply equiv_bind; [|intros c; apply equiv_ret].
        rewrite map_map.
        replace (map (fun x => (@None string, pi x)) ts)
          with (map (fun f : option string * N => (fst f, pi (snd f))) (map (fun i => (@None string, i)) ts))
          by (rewrite map_map; reflexivity).
        apply equiv_fields.
      - apply equiv_bind; [apply equiv_prim|]. intros pv. apply equiv_ret.
      - apply Hrec.
      - apply equiv_bind; [apply equiv_draw|]. intros n.
        apply equiv_bind; [apply equiv_draw|]. intros bits. apply equiv_ret.
    Qed.
  End Rec.
End Keys.

Lemma resolve_go_S fuel' r id s :
  resolve_go (S fuel') r id s =
  match lookup r id with
  | None => XErr (XNotFound id)
  | Some t =>
      match cache_get (fst s) id with
      | Some CRecursive => XErr (XRecursive id)
      | _ =>
          match ty_example (resolve_go fuel' r) t (cache_set id CRecursive (fst s), snd s) with
          | XOk (v, s') => XOk (v, (cache_set id (CComputed v) (fst s'), snd s'))
          | XErr e => XErr e
          | XPanic m => XPanic m
          end
      end
  end.
Proof. reflexivity. Qed.

Section RenumberRun.
  Variable pi : N -> N.
  Variable r : registry.
  Hypothesis Hpi : renumbering (N.of_nat (List.length r)) pi.

  Theorem resolve_go_renumber : forall fuel id,
    equiv pi (resolve_go fuel (renumber pi r) (pi id)) (resolve_go fuel r id).
  Proof.
    pose proof (proj1 Hpi) as Hinj.
    induction fuel as [|fuel IH]; intros id s; [reflexivity|].
    rewrite !resolve_go_S. rewrite (lookup_renumber pi r Hpi).
    destruct (lookup r id) as [t|]; cbn [option_map]; [|reflexivity].
    unfold mapst at 1 2. cbn [fst snd]. rewrite (cache_get_map pi Hinj).
    assert (Hrun :
      match ty_example (resolve_go fuel (renumber pi r)) (rename_ty pi t)
                       (cache_set (pi id) CRecursive (map_cache pi (fst s)), snd s) with
      | XOk (v, s') => XOk (v, (cache_set (pi id) (CComputed v) (fst s'), snd s'))
      | XErr e => XErr e
      | XPanic m => XPanic m
      end =
      mapres pi
        match ty_example (resolve_go fuel r) t (cache_set id CRecursive (fst s), snd s) with
        | XOk (v, s') => XOk (v, (cache_set id (CComputed v) (fst s'), snd s'))
        | XErr e => XErr e
        | XPanic m => XPanic m
        end).
    { rewrite (cache_set_map pi Hinj).
      change (map_cache pi (cache_set id CRecursive (fst s)), snd s)
        with (mapst pi (cache_set id CRecursive (fst s), snd s)).
      rewrite (equiv_ty_example pi (resolve_go fuel (renumber pi r)) (resolve_go fuel r) IH t).
      destruct (ty_example (resolve_go fuel r) t (cache_set id CRecursive (fst s), snd s))
        as [[v [c1 ws1]]|e|m]; cbn [mapres mapst fst snd]; [|reflexivity|reflexivity].
      rewrite (cache_set_map pi Hinj). reflexivity. }
    destruct (cache_get (fst s) id) as [[|cv]|]; [reflexivity|exact Hrun|exact Hrun].
  Qed.
End RenumberRun.

(** ** successful runs survive more entries and more fuel *)
Definition le_ok {A} (x1 x2 : M A) : Prop := forall s y, x1 s = XOk y -> x2 s = XOk y.

Lemma le_refl {A} (x : M A) : le_ok x x.
Proof. intros s y H; exact H. Qed.

Lemma le_bind {A B} (x1 x2 : M A) (f1 f2 : A -> M B) :
  le_ok x1 x2 -> (forall a, le_ok (f1 a) (f2 a)) -> le_ok (mbind x1 f1) (mbind x2 f2).
Proof.
  intros Hx Hf s y H. unfold mbind in *.
  destruct (x1 s) as [[a s1]|e|m] eqn:E; try discriminate.
  rewrite (Hx _ _ E). apply Hf. exact H.
Qed.

Lemma le_mmapM {X B} (f1 f2 : X -> M B) l :
  (forall x, le_ok (f1 x) (f2 x)) -> le_ok (mmapM f1 l) (mmapM f2 l).
Proof.
  intros H. induction l as [|x l IH]; cbn [mmapM]; [apply le_refl|].
  apply le_bind; [apply H|]. intros y. apply le_bind; [exact IH|]. intros ys. apply le_refl.
Qed.

Lemma le_mrepeatN {A} len (f1 f2 : M A) : le_ok f1 f2 -> le_ok (mrepeatN len f1) (mrepeatN len f2).
Proof.
  intros Hf s y. unfold mrepeatN. rewrite !N2Nat.inj_iter.
  assert (E : forall n acc, Nat.iter n (mrepeat_step f1) (XOk ([], s)) = XOk acc ->
                            Nat.iter n (mrepeat_step f2) (XOk ([], s)) = XOk acc).
  { induction n as [|n IH]; intros acc H; [exact H|]. rewrite nat_iter_S in *.
    destruct (Nat.iter n (mrepeat_step f1) (XOk ([], s))) as [[xs s0]|e|m] eqn:E1; try discriminate.
    rewrite (IH _ eq_refl). cbn [mrepeat_step] in *.
    destruct (f1 s0) as [[x s1]|e|m] eqn:E2; try discriminate. rewrite (Hf _ _ E2). exact H. }
  destruct (Nat.iter (N.to_nat len) (mrepeat_step f1) (XOk ([], s))) as [[xs s0]|e|m] eqn:E1; try discriminate.
  rewrite (E _ _ E1). intros H; exact H.
Qed.

Lemma le_fields rec1 rec2 fs :
  (forall i, le_ok (rec1 i) (rec2 i)) -> le_ok (fields_example rec1 fs) (fields_example rec2 fs).
Proof.
  intros H. unfold fields_example.
  destruct (forallb (fun f => is_some (fst f)) fs); destruct (forallb (fun f => is_none (fst f)) fs).
  - apply le_refl.
  - apply le_bind; [|intros l; apply le_refl]. apply le_mmapM. intros f. unfold named_field.
    apply le_bind; [apply H|]. intros v. apply le_refl.
  - apply le_bind; [|intros l; apply le_refl]. apply le_mmapM. intros f. apply H.
  - apply le_refl.
Qed.

Lemma le_ty_example rec1 rec2 t :
  (forall i, le_ok (rec1 i) (rec2 i)) -> le_ok (ty_example rec1 t) (ty_example rec2 t).
Proof.
  intros H. unfold ty_example. destruct (t_def t) as [fs|vs|e|len e|ts|p|e|st o].
  - apply le_bind; [apply le_fields; exact H|]. intros c. apply le_refl.
  - apply le_bind; [apply le_refl|]. intros [var|]; [|apply le_refl].
    apply le_bind; [apply le_fields; exact H|]. intros c. apply le_refl.
  - apply le_bind; [apply H|]. intros v1. apply le_bind; [apply H|]. intros v2. apply le_refl.
  - apply le_bind; [apply le_mrepeatN; apply H|]. intros vs. apply le_refl.
  - apply le_bind; [apply le_fields; exact H|]. intros c. apply le_refl.
  - apply le_refl.
  - apply H.
  - apply le_refl.
Qed.

Theorem resolve_go_prefix r1 r2 : forall (f1 f : nat) id,
  (f1 <= f)%nat -> le_ok (resolve_go f1 r1 id) (resolve_go f (r1 ++ r2) id).
Proof.
  induction f1 as [|f1 IH]; intros f id Hle s y H; [discriminate|].
  destruct f as [|f]; [lia|]. rewrite resolve_go_S in *.
  destruct (lookup r1 id) as [t|] eqn:E; [|discriminate].
  rewrite (lookup_app1 r1 r2 _ _ E).
  assert (Hrun : forall y0,
    match ty_example (resolve_go f1 r1) t (cache_set id CRecursive (fst s), snd s) with
    | XOk (v, s') => XOk (v, (cache_set id (CComputed v) (fst s'), snd s'))
    | XErr e => XErr e
    | XPanic m => XPanic m
    end = XOk y0 ->
    match ty_example (resolve_go f (r1 ++ r2)) t (cache_set id CRecursive (fst s), snd s) with
    | XOk (v, s') => XOk (v, (cache_set id (CComputed v) (fst s'), snd s'))
    | XErr e => XErr e
    | XPanic m => XPanic m
    end = XOk y0).
  { intros y0 H0.
    destruct (ty_example (resolve_go f1 r1) t (cache_set id CRecursive (fst s), snd s))
      as [[v s']|e|m] eqn:E1; try discriminate.
    rewrite (le_ty_example (resolve_go f1 r1) (resolve_go f (r1 ++ r2)) t
                           (fun i => IH f i ltac:(lia)) _ _ E1). exact H0. }
  destruct (cache_get (fst s) id) as [[|cv]|]; [discriminate|apply Hrun; exact H|apply Hrun; exact H].
Qed.

(** ** the example of a retained id *)
Theorem example_restriction_same_value pi k r id ws v :
  renumbering (N.of_nat (List.length r)) pi ->
  example_value (restrict pi k r) (pi id) ws = XOk v ->
  example_value r id ws = XOk v.
Proof.
  intros Hpi H. unfold example_value, example_run in *.
  destruct (resolve_go (example_fuel (restrict pi k r)) (restrict pi k r) (pi id) ([], ws))
    as [[v0 s0]|e|m] eqn:E; try discriminate. inversion H; subst v0. clear H.
  assert (Hfuel : (example_fuel (restrict pi k r) <= example_fuel r)%nat).
  { unfold example_fuel, restrict. rewrite firstn_length, renumber_length. lia. }
  pose proof (resolve_go_prefix (restrict pi k r) (dropped pi k r) _ _ (pi id) Hfuel _ _ E) as E'.
  unfold restrict, dropped in E'. rewrite firstn_skipn in E'.
  pose proof (resolve_go_renumber pi r Hpi (example_fuel r) id ([], ws)) as R.
  change (mapst pi ([], ws)) with (([], ws) : st) in R. rewrite E' in R.
  destruct (resolve_go (example_fuel r) r id ([], ws)) as [[v1 s1]|e|m]; cbn [mapres] in R; try discriminate.
  inversion R; subst. reflexivity.
Qed.

(** ... together with [C12_returns] on the restricted registry: when nothing bad is reachable from
    the retained id there, both examples exist and are equal (or the word stream is too short) *)
Theorem example_restriction_same_value_safe pi k r id ws :
  renumbering (N.of_nat (List.length r)) pi ->
  safeb (restrict pi k r) (pi id) = true ->
  (exists v, example_value (restrict pi k r) (pi id) ws = XOk v /\ example_value r id ws = XOk v) \/
  example_value (restrict pi k r) (pi id) ws = XErr XOutOfWords.
Proof.
  intros Hpi Hs. destruct (example_value_returns _ _ ws Hs) as [(v & Hv)|He]; [left|right; exact He].
  exists v. split; [exact Hv|]. eapply example_restriction_same_value; eassumption.
Qed.

(** ** typing on a closed prefix *)
Lemma forallb2_ext_in {A B} (p q : A -> B -> bool) la lb :
  (forall a b, In a la -> p a b = q a b) -> forallb2 p la lb = forallb2 q la lb.
Proof.
  revert lb. induction la as [|a la IH]; destruct lb as [|b lb]; intros H; try reflexivity.
  cbn [forallb2]. rewrite (H a b (or_introl eq_refl)). f_equal. apply IH.
  intros a' b' Ha'. apply H. right; exact Ha'.
Qed.

Lemma fields_typedb_ext_in (T T' : N -> value -> bool) fs c :
  (forall f v, In f fs -> T (f_ty f) v = T' (f_ty f) v) -> fields_typedb T fs c = fields_typedb T' fs c.
Proof.
  intros H. destruct c as [l|l]; cbn [fields_typedb]; apply forallb2_ext_in.
  - intros f nv Hf. destruct (f_name f); [|reflexivity]. rewrite (H f _ Hf). reflexivity.
  - intros f v Hf. rewrite (H f _ Hf). reflexivity.
Qed.

Lemma ty_typedb_ext_in (T T' : N -> value -> bool) t v :
  (forall i v', In i (def_ids (t_def t)) -> T i v' = T' i v') -> ty_typedb T t v = ty_typedb T' t v.
Proof.
  intros H. unfold ty_typedb. destruct (t_def t) as [fs|vs|e|len e|ts|p|e|st o]; cbn [def_ids] in H.
  - destruct v; try reflexivity. apply fields_typedb_ext_in. intros f v' Hf. apply H. apply in_map. exact Hf.
  - destruct v as [|name c| |]; try reflexivity.
    induction vs as [|var vs IH]; [reflexivity|]. cbn [existsb].
    rewrite (fields_typedb_ext_in T T' (v_fields var) c).
    + f_equal. apply IH. intros i v' Hi. apply H. cbn [flat_map]. apply in_or_app. right; exact Hi.
    + intros f v' Hf. apply H. cbn [flat_map]. apply in_or_app. left. apply in_map. exact Hf.
  - destruct v as [[l|l]| | |]; try reflexivity. apply forallb_ext_x. intros v'. apply H. left; reflexivity.
  - destruct v as [[l|l]| | |]; try reflexivity. f_equal. apply forallb_ext_x. intros v'. apply H. left; reflexivity.
  - destruct v as [[l|l]| | |]; try reflexivity. apply forallb2_ext_in. intros i v' Hi. apply H. exact Hi.
  - reflexivity.
  - apply H. left; reflexivity.
  - reflexivity.
Qed.

Lemma lookup_closed_prefix r1 r2 id : in_reg r1 id -> lookup (r1 ++ r2) id = lookup r1 id.
Proof.
  intros Hin. destruct (lookup r1 id) as [t|] eqn:E; [apply lookup_app1; exact E|].
  exfalso. unfold lookup in E. unfold in_reg in Hin. apply N.ltb_lt in Hin. rewrite Hin in E.
  unfold resolve in E. destruct (nth_error r1 (N.to_nat id)) as [[i t]|] eqn:En; [discriminate|].
  apply nth_error_None in En. apply N.ltb_lt in Hin. lia.
Qed.

Theorem has_type_fuel_closed_prefix r1 r2 : closed r1 -> forall f id v,
  in_reg r1 id -> has_type_fuel f (r1 ++ r2) id v = has_type_fuel f r1 id v.
Proof.
  intros Hcl. induction f as [|f IH]; intros id v Hin; [reflexivity|].
  cbn [has_type_fuel]. rewrite (lookup_closed_prefix r1 r2 id Hin).
  destruct (lookup r1 id) as [t|] eqn:E; [|reflexivity].
  apply ty_typedb_ext_in. intros i v' Hi. apply IH.
  eapply Hcl; [rewrite <- lookup_resolve; exact E|]. apply in_or_app. right; exact Hi.
Qed.

(** the checker of the restricted registry and the checker of the full registry agree at every
    fuel on a retained id of a closed restricted registry *)
Theorem has_type_fuel_restriction pi k r :
  renumbering (N.of_nat (List.length r)) pi -> closed (restrict pi k r) ->
  forall f id v, in_reg (restrict pi k r) (pi id) ->
    has_type_fuel f (restrict pi k r) (pi id) v = has_type_fuel f r id v.
Proof.
  intros Hpi Hcl f id v Hin.
  rewrite <- (has_type_fuel_renumber pi r Hpi f id v).
  pose proof (has_type_fuel_closed_prefix (firstn k (renumber pi r)) (skipn k (renumber pi r)) Hcl
                                          f (pi id) v Hin) as E.
  rewrite firstn_skipn in E. symmetry. exact E.
Qed.

(** ** every outcome of a run on a closed prefix is the outcome on the whole registry
    (all outcomes except fuel exhaustion survive more fuel; on a closed prefix no lookup differs) *)
Definition le_nf {A} (x1 x2 : M A) : Prop := forall s, x1 s <> XErr XOutOfFuel -> x2 s = x1 s.

Lemma le_nf_refl {A} (x : M A) : le_nf x x.
Proof. intros s _. reflexivity. Qed.

Lemma le_nf_bind {A B} (x1 x2 : M A) (f1 f2 : A -> M B) :
  le_nf x1 x2 -> (forall a, le_nf (f1 a) (f2 a)) -> le_nf (mbind x1 f1) (mbind x2 f2).
Proof.
  intros Hx Hf s H. unfold mbind in *.
  assert (Hx1 : x1 s <> XErr XOutOfFuel).
  { intros E. rewrite E in H. apply H. reflexivity. }
  rewrite (Hx s Hx1). destruct (x1 s) as [[a s1]|e|m]; [|reflexivity|reflexivity].
  apply Hf. exact H.
Qed.

Lemma le_nf_mmapM {X B} (f1 f2 : X -> M B) l :
  (forall x, In x l -> le_nf (f1 x) (f2 x)) -> le_nf (mmapM f1 l) (mmapM f2 l).
Proof.
  induction l as [|x l IH]; intros H; cbn [mmapM]; [apply le_nf_refl|].
  apply le_nf_bind; [apply H; left; reflexivity|]. intros y.
  apply le_nf_bind; [apply IH; intros x' Hx'; apply H; right; exact Hx'|]. intros ys. apply le_nf_refl.
Qed.

Lemma le_nf_mrepeatN {A} len (f1 f2 : M A) : le_nf f1 f2 -> le_nf (mrepeatN len f1) (mrepeatN len f2).
Proof.
  intros Hf s. unfold mrepeatN. rewrite !N2Nat.inj_iter.
  assert (E : forall n, Nat.iter n (mrepeat_step f1) (XOk ([], s)) <> XErr XOutOfFuel ->
                        Nat.iter n (mrepeat_step f2) (XOk ([], s)) = Nat.iter n (mrepeat_step f1) (XOk ([], s))).
  { induction n as [|n IH]; intros H; [reflexivity|]. rewrite !nat_iter_S in *.
    assert (H1 : Nat.iter n (mrepeat_step f1) (XOk ([], s)) <> XErr XOutOfFuel).
    { intros E. rewrite E in H. apply H. reflexivity. }
    rewrite (IH H1).
    destruct (Nat.iter n (mrepeat_step f1) (XOk ([], s))) as [[xs s0]|e|m]; [|reflexivity|reflexivity].
    cbn [mrepeat_step] in *.
    assert (H2 : f1 s0 <> XErr XOutOfFuel).
    { intros E. rewrite E in H. apply H. reflexivity. }
    rewrite (Hf s0 H2). reflexivity. }
  intros H.
  assert (H1 : Nat.iter (N.to_nat len) (mrepeat_step f1) (XOk ([], s)) <> XErr XOutOfFuel).
  { intros E1. rewrite E1 in H. apply H. reflexivity. }
  rewrite (E _ H1). reflexivity.
Qed.

Lemma le_nf_fields rec1 rec2 fs :
  (forall f, In f fs -> le_nf (rec1 (snd f)) (rec2 (snd f))) ->
  le_nf (fields_example rec1 fs) (fields_example rec2 fs).
Proof.
  intros H. unfold fields_example.
  destruct (forallb (fun f => is_some (fst f)) fs); destruct (forallb (fun f => is_none (fst f)) fs).
  - apply le_nf_refl.
  - apply le_nf_bind; [|intros l; apply le_nf_refl]. apply le_nf_mmapM. intros f Hf. unfold named_field.
    apply le_nf_bind; [apply H; exact Hf|]. intros v. apply le_nf_refl.
  - apply le_nf_bind; [|intros l; apply le_nf_refl]. apply le_nf_mmapM. intros f Hf. apply H. exact Hf.
  - apply le_nf_refl.
Qed.

Lemma le_nf_ty_example rec1 rec2 t :
  (forall i, In i (def_ids (t_def t)) -> le_nf (rec1 i) (rec2 i)) ->
  le_nf (ty_example rec1 t) (ty_example rec2 t).
Proof.
  intros H. unfold ty_example. destruct (t_def t) as [fs|vs|e|len e|ts|p|e|st o]; cbn [def_ids] in H.
  - apply le_nf_bind; [|intros c; apply le_nf_refl]. apply le_nf_fields.
    intros f Hf. unfold field_pairs in Hf. apply in_map_iff in Hf as (f0 & <- & Hf0). cbn [snd].
    apply H. apply in_map. exact Hf0.
  - intros s Hs. unfold mbind in *. destruct (mdraw (choose vs) s) as [[[var|] s1]|e|m] eqn:Ed;
      [|reflexivity|reflexivity|reflexivity].
    assert (Hvar : In var vs).
    { unfold mdraw in Ed. destruct (choose vs (snd s)) as [o ws'|] eqn:Ec; [|discriminate].
      inversion Ed; subst. apply choose_inv in Ec. exact Ec. }
    revert Hs.
    apply (le_nf_bind (fields_example rec1 (field_pairs (v_fields var)))
                      (fields_example rec2 (field_pairs (v_fields var)))).
    + apply le_nf_fields. intros f Hf. unfold field_pairs in Hf.
      apply in_map_iff in Hf as (f0 & <- & Hf0). cbn [snd]. apply H.
      apply in_flat_map. exists var. split; [exact Hvar|apply in_map; exact Hf0].
    + intros c. apply le_nf_refl.
  - apply le_nf_bind; [apply H; left; reflexivity|]. intros v1.
    apply le_nf_bind; [apply H; left; reflexivity|]. intros v2. apply le_nf_refl.
  - apply le_nf_bind; [apply le_nf_mrepeatN; apply H; left; reflexivity|]. intros vs. apply le_nf_refl.
  - apply le_nf_bind; [|intros c; apply le_nf_refl]. apply le_nf_fields.
    intros f Hf. apply in_map_iff in Hf as (i & <- & Hi). cbn [snd]. apply H. exact Hi.
  - apply le_nf_refl.
  - apply H. left; reflexivity.
  - apply le_nf_refl.
Qed.

Theorem resolve_go_closed_prefix r1 r2 : closed r1 -> forall (f1 f : nat) id,
  (f1 <= f)%nat -> in_reg r1 id -> le_nf (resolve_go f1 r1 id) (resolve_go f (r1 ++ r2) id).
Proof.
  intros Hcl. induction f1 as [|f1 IH]; intros f id Hle Hin s H; [exfalso; apply H; reflexivity|].
  destruct f as [|f]; [lia|]. rewrite !resolve_go_S. rewrite resolve_go_S in H.
  rewrite (lookup_closed_prefix r1 r2 id Hin).
  destruct (lookup r1 id) as [t|] eqn:E; [|reflexivity].
  assert (Hrun :
    match ty_example (resolve_go f1 r1) t (cache_set id CRecursive (fst s), snd s) with
    | XOk (v, s') => XOk (v, (cache_set id (CComputed v) (fst s'), snd s'))
    | XErr e => XErr e
    | XPanic m => XPanic m
    end <> XErr XOutOfFuel ->
    match ty_example (resolve_go f (r1 ++ r2)) t (cache_set id CRecursive (fst s), snd s) with
    | XOk (v, s') => XOk (v, (cache_set id (CComputed v) (fst s'), snd s'))
    | XErr e => XErr e
    | XPanic m => XPanic m
    end =
    match ty_example (resolve_go f1 r1) t (cache_set id CRecursive (fst s), snd s) with
    | XOk (v, s') => XOk (v, (cache_set id (CComputed v) (fst s'), snd s'))
    | XErr e => XErr e
    | XPanic m => XPanic m
    end).
  { intros H0.
    assert (H1 : ty_example (resolve_go f1 r1) t (cache_set id CRecursive (fst s), snd s) <> XErr XOutOfFuel).
    { intros E1. rewrite E1 in H0. apply H0. reflexivity. }
    assert (Hle' : le_nf (ty_example (resolve_go f1 r1) t) (ty_example (resolve_go f (r1 ++ r2)) t)).
    { apply le_nf_ty_example. intros i Hi. apply IH; [lia|].
      eapply Hcl; [rewrite <- lookup_resolve; exact E|]. apply in_or_app. right; exact Hi. }
    rewrite (Hle' _ H1). reflexivity. }
  destruct (cache_get (fst s) id) as [[|cv]|]; [reflexivity|apply Hrun; exact H|apply Hrun; exact H].
Qed.

(** the outcome of [example_from_seed] with the ids inside the two id-carrying errors renamed *)
Definition xmap (pi : N -> N) (x : xres value) : xres value :=
  match x with
  | XOk v => XOk v
  | XErr e => XErr (map_xerr pi e)
  | XPanic m => XPanic m
  end.

(** on a closed restricted registry the example run at a retained id has THE outcome of the run on
    the full registry: the same value from the same word stream, or the same error *)
Theorem example_restriction_same_outcome pi k r id ws :
  renumbering (N.of_nat (List.length r)) pi -> closed (restrict pi k r) ->
  in_reg (restrict pi k r) (pi id) ->
  example_value (restrict pi k r) (pi id) ws = xmap pi (example_value r id ws).
Proof.
  intros Hpi Hcl Hin. unfold example_value, example_run.
  set (rr := restrict pi k r).
  assert (Hnf : resolve_go (example_fuel rr) rr (pi id) ([], ws) <> XErr XOutOfFuel).
  { pose proof (resolve_go_total rr (example_fuel rr) (pi id) []) as H.
    assert (Hf : (free rr [] < example_fuel rr)%nat) by (rewrite free_nil; unfold example_fuel; lia).
    specialize (H Hf ([], ws)). cbn beta in H.
    assert (Hi : Inv [] ([], ws)) by (intros j; reflexivity).
    specialize (H Hi). intros E. rewrite E in H. apply H. reflexivity. }
  assert (Hfuel : (example_fuel rr <= example_fuel r)%nat).
  { unfold example_fuel, rr, restrict. rewrite firstn_length, renumber_length. lia. }
  pose proof (resolve_go_closed_prefix rr (dropped pi k r) Hcl _ _ (pi id) Hfuel Hin ([], ws) Hnf) as E.
  unfold rr, restrict, dropped in E. rewrite firstn_skipn in E. fold (restrict pi k r) in E. fold rr in E.
  rewrite <- E.
  pose proof (resolve_go_renumber pi r Hpi (example_fuel r) id ([], ws)) as R.
  change (mapst pi ([], ws)) with (([], ws) : st) in R. rewrite R.
  destruct (resolve_go (example_fuel r) r id ([], ws)) as [[v1 [c1 w1]]|e|m]; reflexivity.
Qed.
