(** Soundness of the boolean [registry_of1b] (evaluated on every interned program as
    [hyp_registry_of1], Corr/RunC05.v) w.r.t. the relation [RegistryOf1] (Model/Program1.v) the
    [..1] theorems of C05 are stated on; the example registry with identity duplicates. *)
From Coq Require Import List NArith String Bool Lia Arith.
From V Require Import Base.Util Base.Strings Base.Result Model.Registry Model.Program Model.ProgramTeq
  Model.Program1 Proofs.SourceRoundTrip Proofs.RegistryOfSound Proofs.Ident1.
Import ListNotations.
Open Scope string_scope. Open Scope list_scope.

Section Sound1.
  Variable defs : list sdef.
  Variable labels : list (option src).
  Variable r : registry.
  Let L := label_at labels.

  Lemma labb1_sound id c : labb1 labels id c = true -> lab1 L id c.
  Proof.
    unfold labb1, lab1, L. destruct (label_at labels id) as [y|]; [|discriminate]. intros H.
    apply src_eqb_sound in H. congruence.
  Qed.

  Lemma field_ofb1_sound pnames args sf f :
    field_ofb1 defs labels pnames args sf f = true -> field_of1 defs L pnames args sf f.
  Proof.
    unfold field_ofb1, field_of1, ostr_eqb. intros H. apply andb_prop in H as [H H3]. apply andb_prop in H as [H1 H2].
    apply option_eqb_str in H1. apply option_eqb_str in H3. apply labb1_sound in H2. auto.
  Qed.

  Lemma param_ofb1_sound pa tp : param_ofb1 labels pa tp = true -> param_of1 L pa tp.
  Proof.
    unfold param_ofb1, param_of1. intros H. apply andb_prop in H as [H1 H2]. apply String.eqb_eq in H1. split; [exact H1|].
    destruct (tp_ty tp) as [id|].
    - apply andb_prop in H2 as [H2 H3]. apply negb_true_iff in H2. rewrite H2. exists id. split; [reflexivity|apply labb1_sound; exact H3].
    - rewrite H2. reflexivity.
  Qed.

  Lemma Forall2_impl1 {A B} (R R' : A -> B -> Prop) la lb :
    (forall a b, R a b -> R' a b) -> Forall2 R la lb -> Forall2 R' la lb.
  Proof. intros H. induction 1; constructor; auto. Qed.

  Lemma plain_docs1 e : Forall (fun b => f_docs b = []) [plain_field e].
  Proof. repeat constructor. Qed.

  Lemma content_ofb1_sound c t :
    match t_path t with [_] => def_nodocs (t_def t) | _ => true end = true ->
    content_ofb1 defs labels r c t = true -> content_of1 defs L r c t.
  Proof.
    intros Hnd H. destruct c; cbn [content_ofb1] in H; cbn [content_of1]; try discriminate H.
    - (* SApp *)
      destruct (nth_error defs d) as [sd|] eqn:Esd; [|discriminate]. exists sd. split; [reflexivity|].
      apply andb_prop in H as [H H4]. apply andb_prop in H as [H H3]. apply andb_prop in H as [H1 H2].
      apply (list_eqb_sound String.eqb) in H1; [|intros x y; apply String.eqb_eq]. apply Nat.eqb_eq in H2.
      split; [exact H1|]. split; [exact H2|]. split.
      { apply forall2b_Forall2 in H3. eapply Forall2_impl1; [|exact H3]. intros a b. apply param_ofb1_sound. }
      cbv zeta in H4 |- *. destruct (sd_body sd) as [fs|vs].
      + destruct (t_def t) as [fl| | | | | | |]; try discriminate. exists fl. split; [reflexivity|].
        apply forall2b_Forall2 in H4. eapply Forall2_impl1; [|exact H4]. intros a b. apply field_ofb1_sound.
      + destruct (t_def t) as [|vl| | | | | |]; try discriminate. exists vl. split; [reflexivity|].
        apply forall2b_Forall2 in H4. eapply Forall2_impl1; [|exact H4]. intros v vr Hv. cbv beta in Hv.
        apply andb_prop in Hv as [Hv Hf]. apply andb_prop in Hv as [Hn Hi].
        apply String.eqb_eq in Hn. apply N.eqb_eq in Hi. split; [exact Hn|]. split; [exact Hi|].
        apply forall2b_Forall2 in Hf. eapply Forall2_impl1; [|exact Hf]. intros a b. apply field_ofb1_sound.
    - apply andb_prop in H as [H1 H2]. apply shape_b_sound in H1 as [Hp Hps].
      destruct (t_def t) as [| |e| | | | |] eqn:Ed; try discriminate. exists e. split; [repeat split; assumption|apply labb1_sound; exact H2].
    - apply andb_prop in H as [H1 H2]. apply shape_b_sound in H1 as [Hp Hps].
      destruct (t_def t) as [| | |m e| | | |] eqn:Ed; try discriminate. apply andb_prop in H2 as [H2 H3]. apply N.eqb_eq in H2. subst m.
      exists e. split; [repeat split; assumption|apply labb1_sound; exact H3].
    - apply andb_prop in H as [H1 H2]. apply shape_b_sound in H1 as [Hp Hps].
      destruct (t_def t) as [| | | |es| | |] eqn:Ed; try discriminate. exists es. split; [repeat split; assumption|].
      apply forall2b_Forall2 in H2. eapply Forall2_impl1; [|exact H2]. intros a b. apply labb1_sound.
    - apply andb_prop in H as [H1 H2]. apply shape_b_sound in H1 as [Hp Hps].
      destruct (t_def t) as [| | | | |q| |] eqn:Ed; try discriminate. apply prim_eqb_eq in H2. subst q. repeat split; assumption.
    - apply andb_prop in H as [H1 H2]. apply shape_b_sound in H1 as [Hp Hps].
      destruct (t_def t) as [| | | | | |e|] eqn:Ed; try discriminate. exists e. split; [repeat split; assumption|apply labb1_sound; exact H2].
    - (* SOpt *)
      destruct (t_params t) as [|tp [|]] eqn:Eps; try discriminate. destruct (tp_ty tp) as [e|] eqn:Ety; [|discriminate].
      apply andb_prop in H as [H H3]. apply andb_prop in H as [H1 H2]. apply shape_b_sound in H2 as [Hp Hps].
      rewrite Hp in Hnd. exists e. split; [apply labb1_sound; exact H1|]. split; [exact Hp|]. split; [congruence|].
      apply variant_b_sound; [exact Hnd| |exact H3]. repeat constructor.
    - (* SRes *)
      destruct (map tp_ty (t_params t)) as [|[x|] [|[y|] [|]]] eqn:Eps; try discriminate.
      apply andb_prop in H as [H H4]. apply andb_prop in H as [H H3]. apply andb_prop in H as [H1 H2].
      apply shape_b_sound in H3 as [Hp Hps]. rewrite Hp in Hnd.
      exists x, y. split; [apply labb1_sound; exact H1|]. split; [apply labb1_sound; exact H2|]. split; [exact Hp|]. split; [exact Hps|].
      apply variant_b_sound; [exact Hnd| |exact H4]. repeat constructor.
    - (* SBTreeMap *)
      destruct (map tp_ty (t_params t)) as [|[ik|] [|[iv|] [|]]] eqn:Eps; try discriminate.
      destruct (t_def t) as [[|f [|]]| | | | | | |] eqn:Ed; try discriminate.
      apply andb_prop in H as [H H5]. apply andb_prop in H as [H H4]. apply andb_prop in H as [H H3]. apply andb_prop in H as [H1 H2].
      apply shape_b_sound in H4 as [Hp Hps]. rewrite Hp in Hnd.
      exists ik, iv, (f_ty f). split; [apply labb1_sound; exact H1|]. split; [apply labb1_sound; exact H2|].
      split; [apply labb1_sound; exact H3|]. split; [exact Hp|]. split; [exact Hps|].
      rewrite <- Ed. apply composite_b_sound; [rewrite Ed; exact Hnd|apply plain_docs1|exact H5].
    - (* SBTreeSet *)
      destruct (map tp_ty (t_params t)) as [|[e|] [|]] eqn:Eps; try discriminate.
      destruct (t_def t) as [[|f [|]]| | | | | | |] eqn:Ed; try discriminate.
      apply andb_prop in H as [H H4]. apply andb_prop in H as [H H3]. apply andb_prop in H as [H1 H2].
      apply shape_b_sound in H3 as [Hp Hps]. rewrite Hp in Hnd.
      exists e, (f_ty f). split; [apply labb1_sound; exact H1|]. split; [apply labb1_sound; exact H2|].
      split; [exact Hp|]. split; [exact Hps|].
      rewrite <- Ed. apply composite_b_sound; [rewrite Ed; exact Hnd|apply plain_docs1|exact H4].
    - (* SCow *)
      destruct (map tp_ty (t_params t)) as [|[e|] [|]] eqn:Eps; try discriminate.
      apply andb_prop in H as [H H3]. apply andb_prop in H as [H1 H2].
      apply shape_b_sound in H2 as [Hp Hps]. rewrite Hp in Hnd.
      exists e. split; [apply labb1_sound; exact H1|]. split; [exact Hp|]. split; [exact Hps|].
      apply composite_b_sound; [exact Hnd|apply plain_docs1|exact H3].
    - (* SRange *)
      destruct (map tp_ty (t_params t)) as [|[e|] [|]] eqn:Eps; try discriminate.
      apply andb_prop in H as [H H3]. apply andb_prop in H as [H1 H2].
      apply shape_b_sound in H2 as [Hp Hps]. rewrite Hp in Hnd.
      exists e. split; [apply labb1_sound; exact H1|]. split; [exact Hp|]. split; [exact Hps|].
      apply composite_b_sound; [exact Hnd|repeat constructor|exact H3].
    - (* SBitVec *)
      apply andb_prop in H as [H1 H2]. apply shape_b_sound in H1 as [Hp Hps].
      destruct (t_def t) as [| | | | | | |ist io] eqn:Ed; try discriminate.
      apply andb_prop in H2 as [H2 H3].
      destruct (label_at labels io) eqn:Elio; [discriminate|]. destruct (resolve r io) as [ot|] eqn:Eot; [|discriminate].
      exists ist, io, ot. split; [repeat split; assumption|]. split; [apply labb1_sound; exact H2|].
      split; [exact Elio|]. split; [exact Eot|apply order_markerb_sound; exact H3].
  Qed.

  (** soundness of the checker evaluated on every generated / compiled program *)
  Theorem registry_of1b_sound :
    registry_of1b defs labels r = true -> prelude_nodocs_b r = true -> RegistryOf1 defs L r.
  Proof.
    unfold registry_of1b, registry_entries_of1b, labels_injectiveb. intros H Hnd.
    apply andb_prop in H as [H H3]. apply andb_prop in H as [H1 H2].
    apply Nat.eqb_eq in H1. apply forall2b_Forall2 in H2.
    unfold prelude_nodocs_b in Hnd. rewrite forallb_forall in Hnd.
    split; [|split].
    - intros id c Hl. unfold L, label_at in Hl.
      destruct (nth_error labels (N.to_nat id)) as [o|] eqn:El; [|discriminate]. subst o.
      destruct (Forall2_nth _ _ _ _ _ H2 El) as ([i t] & Hr & He). cbn [snd] in He.
      apply andb_prop in He as [Hn He]. apply src_eqb_sound in Hn. split; [exact Hn|].
      exists t. split; [unfold resolve; rewrite Hr; reflexivity|].
      apply content_ofb1_sound; [|exact He]. apply (Hnd (i, t)). eapply nth_error_In; eauto.
    - intros id t Hr Hl. unfold resolve in Hr.
      destruct (nth_error r (N.to_nat id)) as [[i t']|] eqn:Er; [|discriminate]. inversion Hr; subst t'.
      destruct (Forall2_nth_r _ _ _ _ _ H2 Er) as (o & Ho & He). cbn [snd] in He.
      unfold L, label_at in Hl. rewrite Ho in Hl. subst o.
      apply orb_prop in He as [He|He]; [exists true|exists false]; apply order_markerb_sound; exact He.
    - intros i j c Hi Hj. unfold L, label_at in Hi, Hj.
      destruct (nth_error labels (N.to_nat i)) as [oi|] eqn:Ei; [|discriminate].
      destruct (nth_error labels (N.to_nat j)) as [oj|] eqn:Ej; [|discriminate]. subst oi oj.
      apply N2Nat.inj. eapply nodup_labels_inj; eauto.
  Qed.
End Sound1.
