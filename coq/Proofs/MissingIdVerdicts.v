(** C10: the field and generation verdicts of the run-time checkers ([field_verdict],
    [gen_verdict], Corr/CheckTG.v) against the model, on the one-missing-id class.

    Part A: [descent_rounds] with a stop list (ids answered by a parent parameter are never
    expanded) is a correct worklist closure, from any consistent start state.
    Part B: with [stop] = the ids of the parent parameters, the closure started below the root is
    [reaches_missing r parents].
    Part C: [field_verdict] = outcome of [resolve_field_type_path]; [gen_verdict] = outcome of
    [generate]. *)
From Coq Require Import List NArith String Ascii Bool Lia Arith.
From V Require Import Base.Strings Base.Result Model.Registry Model.Settings Model.Subst
  Model.TypePath Model.Derives Model.Generate Model.Emit Model.WellFormed Model.Renumber Model.MissingId
  Proofs.GenProofs Proofs.ResolveTotal Proofs.FidelityBase Proofs.MissingId Proofs.MissingIdGen
  Proofs.MissingIdDescent Proofs.MissingIdGuard Corr.CheckTG.
Import ListNotations.
Open Scope string_scope. Open Scope list_scope.

(** ** Part A *)
Section ClosureStop.
  Variable r : registry.
  Variable s : settings.
  Variable stop : list N.

  Inductive sreach : N -> N -> Prop :=
  | sreach_refl x : sreach x x
  | sreach_step x c y : dchild r s x c -> ~ In c stop -> sreach c y -> sreach x y.

  Lemma sreach_snoc x y z : sreach x y -> dchild r s y z -> ~ In z stop -> sreach x z.
  Proof.
    induction 1 as [x|x c y Hc Hs _ IH]; intros Hz Hzs.
    - eapply sreach_step; [exact Hz|exact Hzs|apply sreach_refl].
    - eapply sreach_step; [exact Hc|exact Hs|apply IH; assumption].
  Qed.

  Lemma sreach_dreach x y : sreach x y -> dreach r s x y.
  Proof.
    induction 1 as [x|x c y Hc _ _ IH]; [apply dreach_refl|eapply dreach_step; eassumption].
  Qed.

  Definition sinv (roots visited frontier : list N) (fails : list dfail) : Prop :=
    (forall x, In x roots -> In x visited \/ (In x frontier /\ ~ In x stop)) /\
    (forall v c, In v visited -> dchild r s v c -> In c stop \/ In c visited \/ In c frontier) /\
    (forall v f, In v visited -> dfails r s v f -> In f fails) /\
    (forall x, In x visited -> exists x0, In x0 roots /\ sreach x0 x) /\
    (forall x, In x frontier -> ~ In x stop -> exists x0, In x0 roots /\ sreach x0 x) /\
    (forall f, In f fails -> exists x0 v, In x0 roots /\ sreach x0 v /\ dfails r s v f).

  Lemma sinv_done roots visited frontier fails :
    sinv roots visited frontier fails ->
    nodup_keep (stop ++ visited) frontier = [] ->
    (forall f, In f fails -> exists x0 v, In x0 roots /\ sreach x0 v /\ dfails r s v f) /\
    (forall x0 v f, In x0 roots -> sreach x0 v -> dfails r s v f -> In f fails).
  Proof.
    intros (I0 & I1 & I2 & I3 & I3f & I4) Et.
    assert (Hfv : forall x, In x frontier -> ~ In x stop -> In x visited).
    { intros x Hx Hs. destruct (in_dec N.eq_dec x visited) as [Hv|Hv]; [exact Hv|].
      assert (Hin : In x (nodup_keep (stop ++ visited) frontier)).
      { apply nodup_keep_In. split; [exact Hx|]. intros H. apply in_app_or in H as [H|H]; contradiction. }
      rewrite Et in Hin. destruct Hin. }
    split; [exact I4|].
    intros x0 v f Hx0 Hr Hf.
    assert (Hv : In v visited).
    { assert (Hx0v : In x0 visited).
      { destruct (I0 _ Hx0) as [H|[H Hs]]; [exact H|apply Hfv; assumption]. }
      clear Hx0. induction Hr as [x|x c y Hc Hs _ IHr]; [exact Hx0v|].
      apply IHr; [exact Hf|]. destruct (I1 _ _ Hx0v Hc) as [H|[H|H]]; [contradiction|exact H|apply Hfv; assumption]. }
    exact (I2 _ _ Hv Hf).
  Qed.

  Lemma descent_rounds_stop roots : forall n visited frontier fails fails',
    sinv roots visited frontier fails ->
    descent_rounds n r s stop visited frontier fails = Some fails' ->
    (forall f, In f fails' -> exists x0 v, In x0 roots /\ sreach x0 v /\ dfails r s v f) /\
    (forall x0 v f, In x0 roots -> sreach x0 v -> dfails r s v f -> In f fails').
  Proof.
    induction n as [|n IH]; intros visited frontier fails fails' Hinv H.
    - cbn [descent_rounds] in H.
      destruct (nodup_keep (stop ++ visited) frontier) as [|a todo] eqn:Et; [|discriminate].
      inversion H; subst fails'. eapply sinv_done; eassumption.
    - cbn [descent_rounds] in H.
      destruct (nodup_keep (stop ++ visited) frontier) as [|a todo'] eqn:Et.
      + inversion H; subst fails'. eapply sinv_done; eassumption.
      + destruct Hinv as (I0 & I1 & I2 & I3 & I3f & I4).
        set (todo := a :: todo') in *.
        assert (Htodo : forall x, In x todo <-> In x frontier /\ ~ In x stop /\ ~ In x visited).
        { intros x. rewrite <- Et. rewrite nodup_keep_In. split.
          - intros (H1 & H2). split; [exact H1|]. split; intros Hc; apply H2; apply in_or_app; auto.
          - intros (H1 & H2 & H3). split; [exact H1|]. intros Hc. apply in_app_or in Hc as [Hc|Hc]; contradiction. }
        assert (Hfront : forall x, In x frontier -> ~ In x stop -> In x (todo ++ visited)).
        { intros x Hx Hs. apply in_or_app. destruct (in_dec N.eq_dec x visited) as [Hv|Hv]; [right; exact Hv|].
          left. apply Htodo. auto. }
        apply (IH (todo ++ visited) (flat_map snd (map (descent_step r s) todo))
                  (flat_map fst (map (descent_step r s) todo) ++ fails) fails'); [|exact H].
        split; [|split; [|split; [|split; [|split]]]].
        * intros x Hx. left. destruct (I0 _ Hx) as [Hv|[Hf Hs]];
            [apply in_or_app; right; exact Hv|apply Hfront; assumption].
        * intros v c Hv Hc. apply in_app_or in Hv as [Hv|Hv].
          -- right; right. apply in_flat_map. exists (descent_step r s v). split; [apply in_map; exact Hv|exact Hc].
          -- destruct (I1 _ _ Hv Hc) as [Hcs|[Hcv|Hcf]]; [left; exact Hcs|right; left; apply in_or_app; right; exact Hcv|].
             destruct (in_dec N.eq_dec c stop) as [Hs|Hs]; [left; exact Hs|right; left; apply Hfront; assumption].
        * intros v f Hv Hf. apply in_or_app. apply in_app_or in Hv as [Hv|Hv].
          -- left. apply in_flat_map. exists (descent_step r s v). split; [apply in_map; exact Hv|exact Hf].
          -- right. exact (I2 _ _ Hv Hf).
        * intros x Hx. apply in_app_or in Hx as [Hx|Hx]; [|apply I3; exact Hx].
          apply Htodo in Hx as (Hf & Hs & _). apply I3f; assumption.
        * intros x Hx Hxs. apply in_flat_map in Hx as (st & Hst & Hx). apply in_map_iff in Hst as (v & <- & Hv).
          apply Htodo in Hv as (Hvf & Hvs & _). destruct (I3f v Hvf Hvs) as (x0 & Hx0 & Hr).
          exists x0. split; [exact Hx0|]. eapply sreach_snoc; eassumption.
        * intros f Hf. apply in_app_or in Hf as [Hf|Hf]; [|apply I4; exact Hf].
          apply in_flat_map in Hf as (st & Hst & Hf). apply in_map_iff in Hst as (v & <- & Hv).
          apply Htodo in Hv as (Hvf & Hvs & _). destruct (I3f v Hvf Hvs) as (x0 & Hx0 & Hr).
          exists x0, v. auto.
  Qed.

  (** the start state of [field_verdict]: the root already expanded *)
  Theorem descent_rounds_below_root n root fails :
    descent_rounds n r s stop [root] (snd (descent_step r s root)) (fst (descent_step r s root)) = Some fails ->
    forall f, In f fails <-> exists v, sreach root v /\ dfails r s v f.
  Proof.
    intros H.
    destruct (descent_rounds_stop [root] n [root] (snd (descent_step r s root))
                                  (fst (descent_step r s root)) fails) as (S1 & S2); [|exact H|].
    { split; [intros x [<-|[]]; left; left; reflexivity|].
      split; [intros v c [<-|[]] Hc; right; right; exact Hc|].
      split; [intros v f [<-|[]] Hf; exact Hf|].
      split; [intros x [<-|[]]; exists root; split; [left; reflexivity|apply sreach_refl]|].
      split.
      - intros x Hx Hxs. exists root. split; [left; reflexivity|].
        eapply sreach_step; [exact Hx|exact Hxs|apply sreach_refl].
      - intros f Hf. exists root, root. split; [left; reflexivity|]. split; [apply sreach_refl|exact Hf]. }
    intros f. split.
    - intros Hf. destruct (S1 f Hf) as (x0 & v & [<-|[]] & Hr & Hv). exists v. auto.
    - intros (v & Hr & Hv). apply (S2 root v f); [left; reflexivity|exact Hr|exact Hv].
  Qed.
End ClosureStop.

(** ** Part B: parents *)
Lemma find_parent_none_ids parents c :
  find_parent parents c None = None <-> ~ In c (map tpi_id parents).
Proof.
  unfold find_parent. induction parents as [|p ps IH]; cbn [find map In]; [tauto|].
  rewrite andb_true_r. destruct (N.eqb (tpi_id p) c) eqn:E.
  - apply N.eqb_eq in E. split; [discriminate|]. intros H. exfalso. apply H. left; exact E.
  - apply N.eqb_neq in E. rewrite IH. tauto.
Qed.

Lemma typed_params_go : forall l i,
  map (fun p => (tpi_orig p, tpi_id p)) (params_go i l) =
  flat_map (fun p => match tp_ty p with Some j => [(tp_name p, j)] | None => [] end) l.
Proof.
  induction l as [|p l IH]; intros i; cbn [params_go flat_map]; [reflexivity|].
  destruct (tp_ty p); cbn [map app tpi_orig tpi_id]; rewrite IH; reflexivity.
Qed.

Lemma typed_params_parents t :
  typed_params t = map (fun p => (tpi_orig p, tpi_id p)) (params_from_scale_info (t_params t)).
Proof. unfold typed_params. rewrite params_from_scale_info_eq, typed_params_go. reflexivity. Qed.

Lemma stop_ids t : map snd (typed_params t) = map tpi_id (params_from_scale_info (t_params t)).
Proof. rewrite typed_params_parents, map_map. reflexivity. Qed.

Lemma root_answered t id orig :
  existsb (fun np : string * N =>
             N.eqb (snd np) id && match orig with None => true | Some n => String.eqb (fst np) n end)
          (typed_params t) =
  match find_parent (params_from_scale_info (t_params t)) id orig with Some _ => true | None => false end.
Proof.
  rewrite typed_params_parents. unfold find_parent.
  induction (params_from_scale_info (t_params t)) as [|p ps IH]; [reflexivity|].
  cbn [map existsb find fst snd].
  destruct (N.eqb (tpi_id p) id && match orig with Some o => String.eqb (tpi_orig p) o | None => true end);
    [reflexivity|exact IH].
Qed.

Section Fields.
  Variable r : registry.
  Variable s : settings.
  Variable rank : N -> nat.
  Variable m : N.
  Hypothesis Hres : resolvable_but r s rank m.
  Variable parents : list tparam_ir.
  Let stop := map tpi_id parents.

  Lemma sreach_reaches x v m' orig :
    sreach r s stop x v -> dfails r s v (FMissing m') -> find_parent parents x orig = None ->
    reaches_missing r parents x orig m'.
  Proof.
    intros Hr. revert orig. induction Hr as [x|x c y Hc Hs _ IH]; intros orig Hf Hfp.
    - apply (dfails_missing_at r s); assumption.
    - destruct (dchild_edge _ _ _ _ Hc) as (t0 & t & E0 & Et & Hin).
      eapply RM_child; [exact Hfp|exact E0|exact Et|exact Hin|].
      apply IH; [exact Hf|]. apply find_parent_none_ids. exact Hs.
  Qed.

  Lemma reaches_sreach : forall x orig m',
    reaches_missing r parents x orig m' -> exists v, sreach r s stop x v /\ dfails r s v (FMissing m').
  Proof.
    intros x orig m' H.
    induction H as [x orig _ Hn|x orig t0 m' _ Ht0 Hc1 Hc2|x orig t0 t c m' _ Ht0 Hct Hc Hsub IH].
    - exists x. split; [apply sreach_refl|]. unfold dfails. rewrite descent_step_unfold, Hn. left; reflexivity.
    - exists x. split; [apply sreach_refl|]. unfold dfails. rewrite descent_step_unfold, Ht0.
      rewrite cow_inner_eq in Hc1. destruct (ResolveTotal.is_cow (path_ident (t_path t0))); [|discriminate].
      destruct (t_params t0) as [|p0 ps]; [discriminate|]. rewrite Hc1, Hc2. left; reflexivity.
    - destruct IH as (v & Hr & Hf). exists v. split; [|exact Hf].
      eapply sreach_step; [eapply edge_dchild; eassumption| |exact Hr].
      apply find_parent_none_ids. inversion Hsub; assumption.
  Qed.

  (** the failures collected below the root *)
  Theorem descent_below_root_reaches n root orig fails :
    (in_reg r root \/ root = m) -> find_parent parents root orig = None ->
    descent_rounds n r s stop [root] (snd (descent_step r s root)) (fst (descent_step r s root)) = Some fails ->
    (forall f, In f fails -> f = FMissing m) /\
    (fails <> [] <-> reaches_missing r parents root orig m).
  Proof.
    intros Hid Hfp H. pose proof (descent_rounds_below_root r s stop n root fails H) as Spec.
    assert (Hall : forall f, In f fails -> f = FMissing m).
    { intros f Hf. apply Spec in Hf as (v & Hr & Hv).
      pose proof (dreach_in_class r s rank m Hres _ _ (sreach_dreach r s stop _ _ Hr) Hid) as Hvc.
      destruct (dfails_only_missing r s rank m Hres v f Hvc Hv) as (m' & ->).
      pose proof (sreach_reaches root v m' orig Hr Hv Hfp) as Hrm.
      rewrite (reaches_missing_is_m r s rank m Hres parents root orig m' Hid Hrm). reflexivity. }
    split; [exact Hall|]. split.
    - intros Hne. destruct fails as [|f l]; [congruence|].
      pose proof (Hall f (or_introl eq_refl)) as ->.
      destruct (proj1 (Spec (FMissing m)) (or_introl eq_refl)) as (v & Hr & Hv).
      exact (sreach_reaches root v m orig Hr Hv Hfp).
    - intros Hrm E. subst fails. destruct (reaches_sreach root orig m Hrm) as (v & Hr & Hv).
      assert (Hin : In (FMissing m) []) by (apply Spec; exists v; auto). destruct Hin.
  Qed.
End Fields.

(** ** Part C *)
Section Verdicts.
  Variable r : registry.
  Variable s : settings.
  Variable rank : N -> nat.
  Variable m : N.
  Hypothesis Hgen : generable_but r s rank m.
  Let Hres : resolvable_but r s rank m := proj1 (proj2 Hgen).

  (** one field of an entry: the verdict is the outcome of [resolve_field_type_path] *)
  Theorem field_verdict_model t f :
    (in_reg r (f_ty f) \/ f_ty f = m) ->
    match field_verdict r s t f with
    | DClean => ~ freach r m (params_from_scale_info (t_params t)) f /\
                exists p, resolve_field_type_path r s (f_ty f) (params_from_scale_info (t_params t))
                                                  (f_type_name f) = Ok p
    | DFail x => x = FMissing m /\ freach r m (params_from_scale_info (t_params t)) f /\
                 resolve_field_type_path r s (f_ty f) (params_from_scale_info (t_params t))
                                         (f_type_name f) = Err (ETypeNotFound m)
    | DUnsure => True
    end.
  Proof.
    intros Hid. unfold field_verdict, freach, resolve_field_type_path.
    set (parents := params_from_scale_info (t_params t)).
    destruct (missing_id_resolve_rec r s rank m Hres (f_ty f) true parents (f_type_name f) Hid) as (Herr & Hok).
    rewrite (root_answered t (f_ty f) (f_type_name f)). fold parents.
    destruct (find_parent parents (f_ty f) (f_type_name f)) as [p|] eqn:Efp.
    { assert (Hn : ~ reaches_missing r parents (f_ty f) (f_type_name f) m).
      { intros H. inversion H; congruence. }
      split; [exact Hn|]. destruct (Hok Hn) as (p' & Hp' & _). eauto. }
    rewrite (stop_ids t). fold parents.
    destruct (descent_step r s (f_ty f)) as [f0 ch] eqn:Estep.
    destruct (descent_rounds (descent_budget r) r s (map tpi_id parents) [f_ty f] ch f0) as [fails|] eqn:E;
      [|exact I].
    assert (E' : descent_rounds (descent_budget r) r s (map tpi_id parents) [f_ty f]
                                (snd (descent_step r s (f_ty f))) (fst (descent_step r s (f_ty f))) = Some fails)
      by (rewrite Estep; exact E).
    destruct (descent_below_root_reaches r s rank m Hres parents _ _ (f_type_name f) fails Hid Efp E')
      as (Hall & Hiff).
    unfold verdict_of. destruct fails as [|x l].
    - assert (Hn : ~ reaches_missing r parents (f_ty f) (f_type_name f) m)
        by (intros Hrm; apply Hiff in Hrm; congruence).
      split; [exact Hn|]. destruct (Hok Hn) as (p' & Hp' & _). eauto.
    - pose proof (Hall x (or_introl eq_refl)) as ->.
      rewrite (forallb_dfail_all (FMissing m) l) by (intros y Hy; apply Hall; right; exact Hy).
      assert (Hrm : reaches_missing r parents (f_ty f) (f_type_name f) m) by (apply Hiff; discriminate).
      split; [reflexivity|]. split; [exact Hrm|apply Herr; exact Hrm].
  Qed.

  Lemma loop_item_item_entry t : loop_item s t = item_entry s t.
  Proof.
    unfold loop_item, item_entry, namespace.
    destruct (t_def t); cbn [is_composite_or_variant andb];
      destruct (subs_contains (s_subs s) (t_path t)); cbn [negb andb];
      destruct (t_path t) as [|a [|b l]]; cbn [removelast]; try reflexivity;
      destruct (removelast (b :: l)); reflexivity.
  Qed.

  Lemma entry_fields_same t : V.Corr.CheckTG.entry_fields t = V.Model.MissingId.entry_fields t.
  Proof. reflexivity. Qed.

  Lemma first_unclean_clean l : first_unclean l = DClean -> forall v, In v l -> v = DClean.
  Proof.
    induction l as [|v l IH]; intros H w Hw; [destruct Hw|].
    cbn [first_unclean] in H. destruct v; try discriminate.
    destruct Hw as [<-|Hw]; [reflexivity|apply IH; assumption].
  Qed.

  Lemma first_unclean_in l : first_unclean l <> DClean -> In (first_unclean l) l.
  Proof.
    induction l as [|v l IH]; intros H; [exfalso; apply H; reflexivity|].
    cbn [first_unclean] in *. destruct v; [right; apply IH; exact H|left; reflexivity|left; reflexivity].
  Qed.

  Lemma field_in_class id t f :
    resolve r id = Some t -> In f (V.Model.MissingId.entry_fields t) -> in_reg r (f_ty f) \/ f_ty f = m.
  Proof.
    intros Ht Hf. destruct Hres as (_ & Hcl & _). eapply Hcl; [exact Ht|].
    apply in_or_app. right. unfold V.Model.MissingId.entry_fields in Hf.
    destruct (t_def t) as [fs|vs| | | | | | ]; cbn [def_ids]; try (destruct Hf; fail).
    - apply in_map. exact Hf.
    - apply in_flat_map in Hf as (v & Hv & Hf). apply in_flat_map. exists v. split; [exact Hv|apply in_map; exact Hf].
  Qed.

  (** the verdict over the entries [l] (a part of the registry) *)
  Lemma gen_verdict_go_model : forall l seen md,
    (forall e, In e l -> In e r) ->
    match fst (gen_verdict_go r s l seen md) with
    | DClean => forall e, In e l -> item_entry s (snd e) = true -> ~ entry_reaches_missing r (snd e) m
    | DFail x => x = FMissing m /\
                 exists e, In e l /\ item_entry s (snd e) = true /\ entry_reaches_missing r (snd e) m
    | DUnsure => True
    end.
  Proof.
    pose proof Hgen as (Hids & _).
    induction l as [|[id t] l IH]; intros seen md Hl; [intros e []|].
    cbn [gen_verdict_go snd].
    assert (Hl' : forall e, In e l -> In e r) by (intros e He; apply Hl; right; exact He).
    assert (Ht : resolve r id = Some t).
    { apply (GenTotal.ids_consistent_In r id t Hids). apply Hl. left; reflexivity. }
    assert (Hskip : forall seen' md', item_entry s t = false \/ ~ entry_reaches_missing r t m ->
      match fst (gen_verdict_go r s l seen' md') with
      | DClean => forall e, In e ((id, t) :: l) -> item_entry s (snd e) = true -> ~ entry_reaches_missing r (snd e) m
      | DFail x => x = FMissing m /\
                   exists e, In e ((id, t) :: l) /\ item_entry s (snd e) = true /\ entry_reaches_missing r (snd e) m
      | DUnsure => True
      end).
    { intros seen' md' Hno. specialize (IH seen' md' Hl').
      destruct (fst (gen_verdict_go r s l seen' md')) as [|x|]; [| |exact I].
      - intros e [<-|He] Hie; [cbn [snd] in *; destruct Hno as [Hno|Hno]; [congruence|exact Hno]|apply IH; assumption].
      - destruct IH as (Ex & e & He & Hb). split; [exact Ex|]. exists e. split; [right; exact He|exact Hb]. }
    rewrite loop_item_item_entry.
    destruct (item_entry s t) eqn:Eit; [|apply Hskip; left; reflexivity].
    rewrite entry_fields_same.
    destruct (first_unclean (map (field_verdict r s t) (V.Model.MissingId.entry_fields t))) as [|x|] eqn:Efu.
    - assert (Hno : ~ entry_reaches_missing r t m).
      { intros (f & Hf & Rf).
        pose proof (first_unclean_clean _ Efu (field_verdict r s t f) (in_map _ _ _ Hf)) as Ev.
        pose proof (field_verdict_model t f (field_in_class id t f Ht Hf)) as Hm. rewrite Ev in Hm.
        exact (proj1 Hm Rf). }
      destruct (existsb (path_eqb (t_path t)) seen); apply Hskip; right; exact Hno.
    - cbn [fst].
      assert (Hin : In (DFail x) (map (field_verdict r s t) (V.Model.MissingId.entry_fields t))).
      { rewrite <- Efu. apply first_unclean_in. rewrite Efu. discriminate. }
      apply in_map_iff in Hin as (f & Ev & Hf).
      pose proof (field_verdict_model t f (field_in_class id t f Ht Hf)) as Hm. rewrite Ev in Hm.
      destruct Hm as (-> & Rf & _). split; [reflexivity|].
      exists (id, t). split; [left; reflexivity|]. split; [exact Eit|]. exists f. auto.
    - exact I.
  Qed.

  (** the generation verdict is the outcome of the model's [generate] (unique item paths, no
      recursive derives; any comparison function) *)
  Theorem gen_verdict_model teq :
    unique_item_paths r s -> dr_recursive (s_dreg s) = [] ->
    match fst (gen_verdict r s) with
    | DClean => exists items, generate r s teq = Ok items /\ exists toks, emit_module s items = Ok toks
    | DFail x => x = FMissing m /\ generate r s teq = Err (ETypeNotFound m)
    | DUnsure => True
    end.
  Proof.
    intros Huniq Hrec. unfold gen_verdict.
    pose proof (gen_verdict_go_model r [] false (fun e He => He)) as H.
    destruct (missing_id_generate r s rank m Hgen teq Huniq Hrec) as (Herr & Hok).
    destruct (fst (gen_verdict_go r s r [] false)) as [|x|]; [| |exact I].
    - apply Hok. intros (e & He & Hie & Hb). exact (H e He Hie Hb).
    - destruct H as (-> & Hb). split; [reflexivity|apply Herr; exact Hb].
  Qed.
End Verdicts.

(** ** Part D: the round budget always suffices, so on the class every verdict is definite *)
Lemma NoDup_app_intro {A} (l1 l2 : list A) :
  NoDup l1 -> NoDup l2 -> (forall x, In x l1 -> In x l2 -> False) -> NoDup (l1 ++ l2).
Proof.
  induction l1 as [|a l1 IH]; intros H1 H2 Hd; [exact H2|].
  inversion H1 as [|? ? Hna H1']; subst. cbn [app]. constructor.
  - intros H. apply in_app_or in H as [H|H]; [contradiction|]. exact (Hd a (or_introl eq_refl) H).
  - apply IH; [exact H1'|exact H2|]. intros x Hx. apply Hd. right; exact Hx.
Qed.

Section Budget.
  Variable r : registry.
  Variable s : settings.

  Lemma nodup_keep_NoDup : forall l seen, NoDup (nodup_keep seen l).
  Proof.
    induction l as [|a l IH]; intros seen; cbn [nodup_keep]; [constructor|].
    destruct (existsb (N.eqb a) seen); [apply IH|]. constructor; [|apply IH].
    intros H. apply nodup_keep_In in H as (_ & Hn). apply Hn. left; reflexivity.
  Qed.

  Lemma dchild_is_ref x c : dchild r s x c -> In c (all_ref_ids r).
  Proof.
    intros Hc. destruct (dchild_edge _ _ _ _ Hc) as (t0 & t & E0 & Et & Hin).
    assert (Hsrc : exists id', resolve r id' = Some t).
    { rewrite cow_target_eq' in Et. destruct (ResolveTotal.is_cow (path_ident (t_path t0))).
      - destruct (t_params t0) as [|p0 ps]; [discriminate|].
        destruct (tp_ty p0) as [i|]; [|discriminate]. eauto.
      - inversion Et; subst. eauto. }
    destruct Hsrc as (id' & Hid').
    eapply MissingIdGuard.entry_refs_in_all; [exact Hid'|]. apply nonfield_ids_incl. exact Hin.
  Qed.

  Lemma descent_rounds_enough stop U : forall n visited frontier fails,
    NoDup visited -> incl visited U -> incl (all_ref_ids r) U ->
    (forall x, In x frontier -> ~ In x (stop ++ visited) -> In x U) ->
    (List.length U <= n + List.length visited)%nat ->
    exists fails', descent_rounds n r s stop visited frontier fails = Some fails'.
  Proof.
    induction n as [|n IH]; intros visited frontier fails Hnd Hv Hrefs Hf Hlen; cbn [descent_rounds].
    - destruct (nodup_keep (stop ++ visited) frontier) as [|a todo] eqn:Et; [eauto|]. exfalso.
      assert (Ha : In a (nodup_keep (stop ++ visited) frontier)) by (rewrite Et; left; reflexivity).
      apply nodup_keep_In in Ha as (Haf & Han).
      assert (Hnd' : NoDup (a :: visited)).
      { constructor; [|exact Hnd]. intros H. apply Han. apply in_or_app. right; exact H. }
      assert (Hincl : incl (a :: visited) U).
      { intros x [<-|Hx]; [apply Hf; assumption|apply Hv; exact Hx]. }
      pose proof (NoDup_incl_length Hnd' Hincl) as L. cbn [List.length] in L. lia.
    - destruct (nodup_keep (stop ++ visited) frontier) as [|a todo'] eqn:Et; [eauto|].
      set (todo := a :: todo') in *.
      assert (Htodo : forall x, In x todo -> In x frontier /\ ~ In x (stop ++ visited)).
      { intros x Hx. rewrite <- Et in Hx. apply nodup_keep_In. exact Hx. }
      apply IH.
      + apply NoDup_app_intro.
        * rewrite <- Et. apply nodup_keep_NoDup.
        * exact Hnd.
        * intros x Hx Hxv. apply Htodo in Hx as (_ & Hn). apply Hn. apply in_or_app. right; exact Hxv.
      + intros x Hx. apply in_app_or in Hx as [Hx|Hx]; [|apply Hv; exact Hx].
        apply Htodo in Hx as (H1 & H2). apply Hf; assumption.
      + exact Hrefs.
      + intros x Hx _. apply in_flat_map in Hx as (st & Hst & Hx). apply in_map_iff in Hst as (v & <- & Hv').
        apply Hrefs. eapply dchild_is_ref. exact Hx.
      + rewrite app_length. unfold todo. cbn [List.length]. lia.
  Qed.
End Budget.

Section Definite.
  Variable r : registry.
  Variable s : settings.
  Variable rank : N -> nat.
  Variable m : N.
  Hypothesis Hgen : generable_but r s rank m.
  Let Hres : resolvable_but r s rank m := proj1 (proj2 Hgen).

  Lemma budget_path id :
    exists fails, descent_rounds (descent_budget r) r s [] [] [id] [] = Some fails.
  Proof.
    apply (descent_rounds_enough r s [] (id :: all_ref_ids r)).
    - constructor.
    - intros x [].
    - intros x Hx. right; exact Hx.
    - intros x [<-|[]] _. left; reflexivity.
    - unfold descent_budget. cbn [List.length]. lia.
  Qed.

  Lemma budget_field stop root :
    exists fails, descent_rounds (descent_budget r) r s stop [root] (snd (descent_step r s root))
                                 (fst (descent_step r s root)) = Some fails.
  Proof.
    apply (descent_rounds_enough r s stop (root :: all_ref_ids r)).
    - constructor; [intros []|constructor].
    - intros x [<-|[]]. left; reflexivity.
    - intros x Hx. right; exact Hx.
    - intros x Hx _. right. eapply dchild_is_ref. exact Hx.
    - unfold descent_budget. cbn [List.length]. lia.
  Qed.

  Theorem path_verdict_definite id :
    (in_reg r id \/ id = m) ->
    (path_verdict r s id = DClean /\ exists t, resolve_type_path r s id = Ok t) \/
    (path_verdict r s id = DFail (FMissing m) /\ resolve_type_path r s id = Err (ETypeNotFound m)).
  Proof.
    intros Hid. pose proof (path_verdict_model r s rank m Hres id Hid) as Hm.
    destruct (budget_path id) as (fails & E).
    destruct (descent_rounds_reaches r s rank m Hres _ _ _ Hid E) as (Hall & _).
    unfold path_verdict in *. rewrite E in *. unfold verdict_of in *.
    destruct fails as [|x l].
    - left. split; [reflexivity|exact (proj2 Hm)].
    - pose proof (Hall x (or_introl eq_refl)) as ->.
      rewrite (forallb_dfail_all (FMissing m) l) in * by (intros y Hy; apply Hall; right; exact Hy).
      right. split; [reflexivity|exact (proj2 (proj2 Hm))].
  Qed.

  Theorem field_verdict_definite t f :
    (in_reg r (f_ty f) \/ f_ty f = m) ->
    field_verdict r s t f = DClean \/ field_verdict r s t f = DFail (FMissing m).
  Proof.
    intros Hid. unfold field_verdict.
    set (parents := params_from_scale_info (t_params t)).
    rewrite (root_answered t (f_ty f) (f_type_name f)). fold parents.
    destruct (find_parent parents (f_ty f) (f_type_name f)) as [p|] eqn:Efp; [left; reflexivity|].
    rewrite (stop_ids t). fold parents.
    destruct (budget_field (map tpi_id parents) (f_ty f)) as (fails & E).
    destruct (descent_below_root_reaches r s rank m Hres parents _ _ (f_type_name f) fails Hid Efp E)
      as (Hall & _).
    destruct (descent_step r s (f_ty f)) as [f0 ch]. cbn [fst snd] in E. rewrite E.
    unfold verdict_of. destruct fails as [|x l]; [left; reflexivity|].
    pose proof (Hall x (or_introl eq_refl)) as ->.
    rewrite (forallb_dfail_all (FMissing m) l) by (intros y Hy; apply Hall; right; exact Hy).
    right; reflexivity.
  Qed.
End Definite.

(** ** Part E: the whole run-time claim of [prop_missing_id_paths] evaluated on the MODEL's outcomes *)
From V Require Import Base.Util Model.Equal Corr.RunTG.

Lemma combine_self_map {A B} (g : A -> B) l : combine l (map g l) = map (fun x => (x, g x)) l.
Proof. induction l as [|a l IH]; [reflexivity|]. cbn [map combine]. rewrite IH. reflexivity. Qed.

Section OnModel.
  Variable c : tg_case.
  Let r := tg_reg c.
  Let s := settings_of (tg_spec c).
  Variable rank : N -> nat.
  Variable m : N.
  Hypothesis Hgen : generable_but r s rank m.
  Hypothesis Huniq : unique_item_paths r s.
  Hypothesis Hrec : dr_recursive (s_dreg s) = [].
  Hypothesis Hpaths : tg_paths c = map (fun i => obs_of (model_path r s i)) (ids_of r).
  Hypothesis Hg : tg_gen c = obs_of (model_gen r s).

  Let Hres : resolvable_but r s rank m := proj1 (proj2 Hgen).

  Lemma path_claim_on_model id :
    in_reg r id -> obs_meets (path_verdict r s id) (obs_of (model_path r s id)) = true.
  Proof.
    intros Hin. pose proof (path_verdict_model r s rank m Hres id (or_introl Hin)) as Hm.
    destruct (missing_id_resolve r s rank m Hres id (or_introl Hin)) as (_ & Hok).
    unfold model_path. destruct (path_verdict r s id) as [|f|]; [| |reflexivity].
    - destruct Hm as (Hn & _). destruct (Hok Hn) as (t & Ht & toks & Htoks).
      rewrite Ht. cbn [bind]. rewrite Htoks. reflexivity.
    - destruct Hm as (-> & _ & E). rewrite E. cbn [bind obs_of obs_meets obs_is_fail list_eqb].
      rewrite N.eqb_refl. reflexivity.
  Qed.

  Theorem descent_claims_on_model : descent_claims c = true.
  Proof.
    unfold descent_claims. fold r s. rewrite Hpaths, Hg.
    apply andb_true_intro. split; [apply andb_true_intro; split|].
    - rewrite map_length. unfold ids_of. rewrite map_length, seq_length. apply Nat.eqb_refl.
    - rewrite combine_self_map. apply forallb_forall. intros x Hx.
      apply in_map_iff in Hx as (id & <- & Hid). cbn [fst snd]. apply path_claim_on_model.
      unfold ids_of in Hid. apply in_map_iff in Hid as (k & <- & Hk). apply in_seq in Hk.
      unfold in_reg. lia.
    - unfold gen_meets.
      destruct (snd (gen_verdict r s) && match dangling_refs r with [] => false | _ => true end); [reflexivity|].
      pose proof (gen_verdict_model r s rank m Hgen (types_equal r) Huniq Hrec) as Hm.
      unfold model_gen, model_items.
      destruct (fst (gen_verdict r s)) as [|f|]; [| |reflexivity].
      + destruct Hm as (items & E & toks & Et). rewrite E. cbn [bind]. rewrite Et. reflexivity.
      + destruct Hm as (-> & E). rewrite E. cbn [bind obs_of obs_is_fail list_eqb].
        rewrite N.eqb_refl. reflexivity.
  Qed.

  Theorem prop_missing_id_paths_on_model : prop_missing_id_paths c = true.
  Proof.
    unfold prop_missing_id_paths. destruct (missing_id_guard c); [apply descent_claims_on_model|reflexivity].
  Qed.
End OnModel.
