(** C14_conforms: non-vacuity.  A registry with a generic unit struct and a generic named struct
    with an UNUSED parameter (positional [PhantomData] / [__ignore] marker), an enum, a 1-tuple,
    arrays (repeat form and list form), an explicit Compact field, a sequence and a prelude
    [Option].  The hypotheses of the theorem hold on it, the model's examples are accepted by the
    reader [conforms_irb] (hence, by [conforms_irb_sound], are instances), and near misses -- the
    marker dropped, a 1-tuple without its comma, a wrong array length, the Compact wrapper
    dropped, a wrong literal suffix, generics left in the path, a variant of another enum -- are
    rejected by the reader. *)
From Coq Require Import List NArith ZArith Bool String.
From V Require Import Base.Util Base.Result Model.Registry Model.Settings Model.Subst Model.TypePath
  Model.Derives Model.Generate Model.Equal Model.Shape Model.RngWords Model.ExampleRust Model.Conforms
  Proofs.ShapeBool Proofs.ExampleRustProofs Proofs.ConformsProofs.
Import ListNotations.
Open Scope string_scope. Open Scope list_scope. Open Scope N_scope.

Definition cdemo : registry :=
  [ (0, mk_ty [] [] (TDPrimitive PU16) []);
    (1, mk_ty ["a"; "G"] [mk_tparam "T" (Some 0)] (TDComposite []) []);
    (2, mk_ty ["a"; "E"] [] (TDVariant [mk_variant "A" [] 0 []; mk_variant "B" [mk_field None 4 None []] 1 []]) []);
    (3, mk_ty [] [] (TDTuple [0]) []);
    (4, mk_ty [] [] (TDArray 3 3) []);
    (5, mk_ty [] [] (TDCompact 0) []);
    (6, mk_ty ["a"; "C"] [] (TDComposite [mk_field None 5 (Some "Compact<u16>") []]) []);
    (7, mk_ty ["a"; "H"] [mk_tparam "T" (Some 0)] (TDComposite [mk_field (Some "x") 9 (Some "i8") []]) []);
    (8, mk_ty [] [] (TDPrimitive PStr) []);
    (9, mk_ty [] [] (TDPrimitive PI8) []);
    (10, mk_ty [] [] (TDArray 2 8) []);
    (11, mk_ty [] [] (TDSequence 2) []);
    (12, mk_ty ["Option"] [mk_tparam "T" (Some 0)]
           (TDVariant [mk_variant "None" [] 0 []; mk_variant "Some" [mk_field None 0 None []] 1 []]) []);
    (13, mk_ty ["a"; "N"] [] (TDComposite [mk_field (Some "g") 1 (Some "G<u16>") []; mk_field (Some "o") 12 None []]) []) ].

Definition cwords : words := [3000000000; 8; 9; 77; 3000000000; 5; 123456; 99; 1; 2; 3; 4; 5; 6; 7; 8; 9; 10; 11; 12].

Definition cdemo_items : items :=
  match generate cdemo demo_settings (types_equal cdemo) with Ok m => m | _ => [] end.

Example cdemo_generates : generate cdemo demo_settings (types_equal cdemo) = Ok cdemo_items.
Proof. vm_compute. reflexivity. Qed.

Example cdemo_consistent : skeleton_consistentb cdemo demo_settings = true.
Proof. vm_compute. reflexivity. Qed.

Definition accepts (id : N) (ts : tokens) : bool := conforms_irb cdemo demo_settings cdemo_items id ts.

(** every example of the model on this registry is accepted *)
Example cdemo_all_accepted :
  forallb (fun id => match example_rust cdemo demo_settings id cwords with
                     | XOk t => accepts id t
                     | _ => false
                     end) [0; 1; 2; 3; 4; 5; 6; 7; 8; 9; 10; 11; 12; 13] = true.
Proof. vm_compute. reflexivity. Qed.

Definition marker : tokens := [":"; ":"; "core"; ":"; ":"; "marker"; ":"; ":"; "PhantomData"].
Definition pG : tokens := ["types"; ":"; ":"; "a"; ":"; ":"; "G"].

(** a generic unit struct with an unused parameter: the positional marker is required *)
Example ex_unit_marker :
  example_rust cdemo demo_settings 1 cwords = XOk (pG ++ ["("] ++ marker ++ [")"]) /\
  accepts 1 (pG ++ ["("] ++ marker ++ [")"]) = true /\
  accepts 1 pG = false /\
  accepts 1 (["types"; ":"; ":"; "a"; ":"; ":"; "G"; "<"; "u16"; ">"] ++ ["("] ++ marker ++ [")"]) = false.
Proof. vm_compute. repeat split; reflexivity. Qed.

(** a named struct with an unused parameter: [__ignore] is required, the field names are the item's *)
Example ex_named_marker :
  let p := ["types"; ":"; ":"; "a"; ":"; ":"; "H"] in
  example_rust cdemo demo_settings 7 cwords =
    XOk (p ++ ["{"; "x"; ":"; "0i8"; ","; "__ignore"; ":"] ++ marker ++ ["}"]) /\
  accepts 7 (p ++ ["{"; "x"; ":"; "-"; "5i8"; ","; "__ignore"; ":"] ++ marker ++ ["}"]) = true /\
  accepts 7 (p ++ ["{"; "x"; ":"; "-"; "5i8"; ","; "}"]) = false /\
  accepts 7 (p ++ ["{"; "y"; ":"; "-"; "5i8"; ","; "__ignore"; ":"] ++ marker ++ ["}"]) = false /\
  accepts 7 (p ++ ["{"; "x"; ":"; "5u8"; ","; "__ignore"; ":"] ++ marker ++ ["}"]) = false /\
  accepts 7 (p ++ ["{"; "x"; ":"; "-"; "129i8"; ","; "__ignore"; ":"] ++ marker ++ ["}"]) = false.
Proof. vm_compute. repeat split; reflexivity. Qed.

(** a variant of the enum, with that variant's fields; a 1-tuple keeps its comma; array length *)
Example ex_variant_tuple_array :
  let pE := ["types"; ":"; ":"; "a"; ":"; ":"; "E"] in
  let t1 := ["("; "8u16"; ","; ")"] in
  example_rust cdemo demo_settings 2 cwords =
    XOk (pE ++ [":"; ":"; "B"; "("; "["] ++ t1 ++ [";"; "3usize"; "]"; ","; ")"]) /\
  accepts 2 (pE ++ [":"; ":"; "A"]) = true /\
  accepts 2 (pE ++ [":"; ":"; "A"; "("; "["] ++ t1 ++ [";"; "3usize"; "]"; ","; ")"]) = false /\
  accepts 2 (pE ++ [":"; ":"; "Some"; "("; "8u16"; ","; ")"]) = false /\
  accepts 3 t1 = true /\
  accepts 3 ["("; "8u16"; ")"] = false /\
  accepts 3 ["("; "8u16"; ","; "8u16"; ","; ")"] = false /\
  accepts 4 (["["] ++ t1 ++ [";"; "3usize"; "]"]) = true /\
  accepts 4 (["["] ++ t1 ++ [","] ++ t1 ++ [","] ++ t1 ++ ["]"]) = true /\
  accepts 4 (["["] ++ t1 ++ [","] ++ t1 ++ ["]"]) = false /\
  accepts 4 (["["] ++ t1 ++ [";"; "2usize"; "]"]) = false.
Proof. vm_compute. repeat split; reflexivity. Qed.

(** the Compact wrapper exactly on the explicitly Compact-typed field; strings; sequences; Option *)
Example ex_compact_seq_option :
  let pC := ["types"; ":"; ":"; "a"; ":"; ":"; "C"] in
  let pO := [":"; ":"; "core"; ":"; ":"; "option"; ":"; ":"; "Option"] in
  example_rust cdemo demo_settings 6 cwords = XOk (pC ++ ["("; "Compact"; "("; "24064u16"; ")"; ","; ")"]) /\
  accepts 6 (pC ++ ["("; "24064u16"; ","; ")"]) = false /\
  accepts 0 ["Compact"; "("; "24064u16"; ")"] = false /\
  accepts 10 ["["; """Foo"""; "."; "into"; "("; ")"; ","; """Bar"""; "."; "into"; "("; ")"; "]"] = true /\
  accepts 10 ["["; """Foo"""; "."; "into"; "("; ")"; "]"] = false /\
  accepts 11 ["vec"; "!"; "["; "]"] = true /\
  accepts 11 (["vec"; "!"; "["] ++ ["types"; ":"; ":"; "a"; ":"; ":"; "E"; ":"; ":"; "A"] ++ ["]"]) = true /\
  accepts 12 (pO ++ [":"; ":"; "Some"; "("; "1u16"; ","; ")"]) = true /\
  accepts 12 (pO ++ [":"; ":"; "None"]) = true /\
  accepts 12 (pO ++ [":"; ":"; "Some"]) = false.
Proof. vm_compute. repeat split; reflexivity. Qed.

(** the theorem applies: hypotheses hold, and its conclusion is inhabited for a struct with a marker *)
Lemma conforms_nonvacuous :
  exists (r : registry) (s : settings) (m : items) (id : N) (ws : words) (ts : tokens),
    generate r s (types_equal r) = Ok m /\ skeleton_consistent r s /\
    example_rust r s id ws = XOk ts /\ In "PhantomData" ts /\ conforms r s m id ts [].
Proof.
  exists cdemo, demo_settings, cdemo_items, 1, cwords, (pG ++ ["("] ++ marker ++ [")"]).
  split; [exact cdemo_generates|]. split; [apply skeleton_consistentb_sound; exact cdemo_consistent|].
  split; [apply ex_unit_marker|]. split; [vm_compute; tauto|].
  apply conforms_irb_sound. apply ex_unit_marker.
Qed.

(** ** the hypothesis [skeleton_consistent] of C14_conforms is needed (known finding F15).
    Witness corpus/C14/F15_marker_per_instance.json: [a::G<T> { v: (u8,) }] instantiated with
    [T = u16] (id 2, first: the item gets the [__ignore] marker) and with [T = u8] (id 3: [T] counts
    as used because its concrete id equals the tuple element's id).  Generation succeeds
    ([types_equal] judges the two entries equal), the example of id 3 lacks the marker the stored
    item declares, and it is NOT an instance. *)
Definition f15_reg : registry :=
  [ (0, mk_ty [] [] (TDPrimitive PU8) []);
    (1, mk_ty [] [] (TDPrimitive PU16) []);
    (2, mk_ty ["a"; "G"] [mk_tparam "T" (Some 1)] (TDComposite [mk_field (Some "v") 4 (Some "(u8,)") []]) []);
    (3, mk_ty ["a"; "G"] [mk_tparam "T" (Some 0)] (TDComposite [mk_field (Some "v") 4 (Some "(u8,)") []]) []);
    (4, mk_ty [] [] (TDTuple [0]) []) ].
Definition f15_items : items := match generate f15_reg demo_settings (types_equal f15_reg) with Ok m => m | _ => [] end.

Definition f15_ts : tokens := ["types"; ":"; ":"; "a"; ":"; ":"; "G"; "{"; "v"; ":"; "("; "7u8"; ","; ")"; ","; "}"].

Ltac look :=
  repeat match goal with
  | L : lookup f15_reg _ = Some _ |- _ => vm_compute in L; inversion L; subst; clear L
  end;
  repeat match goal with
  | D : t_def _ = _ |- _ => cbn in D; try discriminate D; inversion D; subst; clear D
  end.

Lemma f15_not_conforms : ~ conforms f15_reg demo_settings f15_items 3 f15_ts [].
Proof.
  unfold f15_ts. intros H. inversion H; subst; look.
  - (* cow *) match goal with C : cow_inner _ = Some _ |- _ => vm_compute in C; discriminate C end.
  - (* item *)
    match goal with P : path_omit_generics _ _ _ = Ok _ |- _ => vm_compute in P; inversion P; subst; clear P end.
    match goal with G : items_get _ _ = Some _ |- _ => vm_compute in G; inversion G; subst; clear G end.
    match goal with S : sig_of_ir _ = ISStruct _ _ |- _ => vm_compute in S; inversion S; subst; clear S end.
    cbn [app] in *.
    match goal with E : _ :: _ = _ :: _ |- _ => inversion E; subst; clear E end.
    match goal with S : conf_shape _ _ _ _ _ _ |- _ => inversion S; subst; clear S end.
    match goal with S : conf_named _ _ _ _ _ |- _ => inversion S; subst; clear S end.
    match goal with S : conf_named _ [] [] _ _ |- _ => inversion S; subst; clear S end.
    match goal with S : conf_value _ _ _ _ |- _ => inversion S; subst; clear S end.
    match goal with S : conforms _ _ _ _ _ _ |- _ => inversion S; subst; clear S; look end.
    match goal with S : conf_tuple _ _ _ _ |- _ => inversion S; subst; clear S end.
    match goal with S : conf_tuple _ [] _ _ |- _ => inversion S; subst; clear S end.
    match goal with S : conforms _ _ _ _ _ _ |- _ => inversion S; subst; clear S; look end.
    match goal with S : prim_lit _ _ _ |- _ => cbn in S; destruct S as (n & _ & S); inversion S end.
  - match goal with E : item_eligible _ _ = false |- _ => vm_compute in E; discriminate E end.
Qed.

Example f15_generates : generate f15_reg demo_settings (types_equal f15_reg) = Ok f15_items.
Proof. vm_compute. reflexivity. Qed.

Lemma conforms_needs_consistency :
  exists (r : registry) (s : settings) (m : items) (id : N) (ws : words) (ts : tokens),
    generate r s (types_equal r) = Ok m /\ skeleton_consistentb r s = false /\
    example_rust r s id ws = XOk ts /\ ~ conforms r s m id ts [].
Proof.
  exists f15_reg, demo_settings, f15_items, 3, [7], f15_ts.
  split; [exact f15_generates|]. split; [vm_compute; reflexivity|].
  split; [vm_compute; reflexivity|exact f15_not_conforms].
Qed.
