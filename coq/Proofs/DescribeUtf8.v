(** C13: the byte / code-point bridge beyond ASCII.  On well-formed UTF-8 ([utf8_wfb]) decoding
    commutes with tokenization: the code-point tokens of the decoded text are the byte tokens
    with every word decoded.  Descriptions of registries with well-formed names are well-formed,
    so the FORMATTED description reads in lockstep with the spec tree for them too. *)
From Coq Require Import String Ascii List Arith NArith Bool Lia DecimalString.
From V Require Import Base.Util Base.Result Base.Strings Model.Registry Model.Format Model.Describe
  Model.DescribeSpec Model.AsciiSpec Model.Utf8Spec Proofs.FormatProofs Proofs.DescribeProofs
  Proofs.DescribeLockstep Proofs.DescribeFormatTokens Proofs.DescribeAscii.
Import ListNotations.
Open Scope string_scope. Open Scope list_scope.

(** ** 1. descriptions are built from registry names and ASCII literals: any class of texts
    closed under concatenation and containing the ASCII texts is preserved *)
Section Names.
  Variable Q : string -> bool.
  Hypothesis Q_app : forall a b, Q a = true -> Q b = true -> Q (a ++ b)%string = true.
  Hypothesis Q_ascii : forall s, asciib s = true -> Q s = true.

  Lemma Q_cons c s : ascii_charb c = true -> Q s = true -> Q (String c s) = true.
  Proof.
    intros Hc Hs. change (Q (String c "" ++ s)%string = true). apply Q_app; [|exact Hs].
    apply Q_ascii. unfold asciib. cbn [all_chars]. rewrite Hc. reflexivity.
  Qed.

  Ltac qok := repeat first [apply Q_app | apply Q_cons; [reflexivity|]];
              try assumption; try (apply Q_ascii; first [reflexivity | apply asciib_N | apply asciib_prim]).

  Lemma Q_join sep ds :
    Q sep = true -> Forall (fun d => Q d = true) ds -> Q (join sep ds) = true.
  Proof.
    intros Hs H. unfold join. induction H as [|d ds Hd H IH]; [apply Q_ascii; reflexivity|].
    cbn [String.concat]. destruct ds as [|d' ds]; [exact Hd|]. qok.
  Qed.

  Lemma Q_tuple ds : Forall (fun d => Q d = true) ds -> Q (tuple_text ds) = true.
  Proof.
    intros H. unfold tuple_text.
    assert (Hj : Q (join "," ds) = true) by (apply Q_join; [apply Q_ascii; reflexivity|exact H]).
    assert (G : Q ("(" ++ join "," ds ++ ")")%string = true) by qok.
    destruct ds as [|d [|d' ds]]; try exact G. inversion H; subst. qok.
  Qed.

  Definition ty_names (t : ty) : Prop :=
    forallb Q (t_path t) = true /\
    match t_def t with
    | TDComposite fs => fields_namesb Q fs = true
    | TDVariant vs => forallb (fun v => Q (v_name v) && fields_namesb Q (v_fields v)) vs = true
    | _ => True
    end.

  Lemma names_resolve r id t : names_okb Q r = true -> resolve r id = Some t -> ty_names t.
  Proof.
    unfold names_okb, resolve. intros H E.
    destruct (nth_error r (N.to_nat id)) as [[i t']|] eqn:En; [|discriminate]. inversion E; subst t'.
    apply nth_error_In in En. rewrite forallb_forall in H. specialize (H _ En). cbn [snd] in H.
    apply andb_prop in H as [H1 H2]. split; [exact H1|].
    destruct (t_def t); try exact I; exact H2.
  Qed.

  Lemma ident_names t i : ty_names t -> path_ident (t_path t) = Some i -> Q i = true.
  Proof.
    intros [H _] E. unfold path_ident in E. rewrite forallb_forall in H.
    destruct (t_path t) as [|x p]; [discriminate|].
    assert (Ei : i = last (x :: p) "") by congruence. rewrite Ei. apply H. apply last_In. discriminate.
  Qed.

  Variable r : registry.
  Hypothesis Hr : names_okb Q r = true.

  Lemma tname_names : forall fuel t s, ty_names t -> tname r fuel t = Ok s -> Q s = true.
  Proof.
    induction fuel as [|f IH]; intros t s Ht H; [discriminate|]. cbn [tname] in H.
    assert (Hid : forall i s', match resolve r i with None => Panic unwrap_none | Some t' => tname r f t' end = Ok s' ->
                               Q s' = true).
    { intros i s' E. destruct (resolve r i) as [t'|] eqn:Er; [|discriminate].
      eapply IH; [eapply names_resolve; eassumption|exact E]. }
    assert (Hnamed : forall ident ps,
               path_ident (t_path t) = Some ident ->
               mapM (fun p => match tp_ty p with
                              | None => Ok "_"
                              | Some i => match resolve r i with None => Panic unwrap_none | Some t' => tname r f t' end
                              end) (t_params t) = Ok ps ->
               (if String.eqb (join "," ps) "" then Ok ident else Ok (ident ++ "<" ++ join "," ps ++ ">")%string) = Ok s ->
               Q s = true).
    { intros ident ps Ei Eps E. pose proof (ident_names _ _ Ht Ei) as Hident.
      assert (Hps : Forall (fun d => Q d = true) ps).
      { eapply mapM_Forall; [|exact Eps]. intros x y _ Ex. cbn beta in Ex.
        destruct (tp_ty x) as [i|]; [eapply Hid; exact Ex|]. injection Ex as <-. apply Q_ascii; reflexivity. }
      pose proof (Q_join "," ps (Q_ascii "," eq_refl) Hps) as Hj.
      destruct (String.eqb (join "," ps) ""); injection E as <-; [exact Hident|qok]. }
    destruct (t_def t) as [fs|vs|e|len e|ts|p|e|store order] eqn:Ed.
    - destruct (path_ident (t_path t)) as [ident|] eqn:Ei; [|injection H as <-; apply Q_ascii; reflexivity].
      apply bind_ok in H as (ps & Eps & H). eapply Hnamed; [reflexivity|exact Eps|exact H].
    - destruct (path_ident (t_path t)) as [ident|] eqn:Ei; [|injection H as <-; apply Q_ascii; reflexivity].
      apply bind_ok in H as (ps & Eps & H). eapply Hnamed; [reflexivity|exact Eps|exact H].
    - apply bind_ok in H as (i & Ei & H). apply Hid in Ei. injection H as <-. qok.
    - apply bind_ok in H as (i & Ei & H). apply Hid in Ei. injection H as <-. qok.
    - apply bind_ok in H as (ds & Eds & H). injection H as <-. apply Q_tuple.
      eapply mapM_Forall; [|exact Eds]. intros x y _ E. eapply Hid; exact E.
    - injection H as <-. apply Q_ascii, asciib_prim.
    - apply bind_ok in H as (i & Ei & H). apply Hid in Ei. injection H as <-. qok.
    - injection H as <-. apply Q_ascii; reflexivity.
  Qed.

  Definition cache_names (c : cache) : Prop :=
    Forall (fun e : N * centry => match snd e with CDone s => Q s = true | CRec => True end) c.

  Lemma cache_get_names c id s : cache_names c -> cache_get c id = Some (CDone s) -> Q s = true.
  Proof.
    induction c as [|[k v] c IH]; cbn [cache_get]; intros Hc H; [discriminate|].
    inversion Hc as [|? ? Hv Hc']; subst. destruct (N.eqb k id).
    - inversion H; subst v. exact Hv.
    - apply IH; assumption.
  Qed.

  Definition call_names {A} (f : cache -> A -> result (string * cache)) (x : A) : Prop :=
    forall c s c', cache_names c -> f c x = Ok (s, c') -> Q s = true /\ cache_names c'.

  Lemma mapS_names {A} (f : cache -> A -> result (string * cache)) : forall l c ds c',
    (forall x, In x l -> call_names f x) -> cache_names c -> mapS f c l = Ok (ds, c') ->
    Forall (fun d => Q d = true) ds /\ cache_names c'.
  Proof.
    induction l as [|x l IH]; intros c ds c' Hf Hc H; cbn [mapS] in H.
    - inversion H; subst. split; [constructor|exact Hc].
    - apply bind_ok in H as ([d c1] & E1 & H). apply bind_ok in H as ([ds' c2] & E2 & H).
      inversion H; subst ds c'. clear H.
      destruct (Hf x (or_introl eq_refl) _ _ _ Hc E1) as [Hd Hc1].
      destruct (IH _ _ _ (fun y Hy => Hf y (or_intror Hy)) Hc1 E2) as [Hds Hc2].
      split; [constructor; assumption|exact Hc2].
  Qed.

  Section Policy.
    Variable rec : cache -> N -> result (string * cache).
    Hypothesis Hrec : forall id, call_names rec id.

    Lemma field_desc_names f :
      match f_name f with Some n => Q n = true | None => True end -> call_names (field_desc rec) f.
    Proof.
      intros Hn c s c' Hc H. unfold field_desc in H.
      apply bind_ok in H as ([d c1] & E & H). destruct (Hrec _ _ _ _ Hc E) as [Hd Hc1].
      injection H as <- <-. split; [|exact Hc1].
      destruct (f_name f) as [n|], (is_boxed f); qok.
    Qed.

    Lemma fields_desc_names fs : fields_namesb Q fs = true -> call_names (fields_desc rec) fs.
    Proof.
      intros Hfs c s c' Hc H. unfold fields_desc in H.
      assert (Hall : forall f, In f fs -> call_names (field_desc rec) f).
      { intros f Hf. apply field_desc_names. unfold fields_namesb in Hfs.
        rewrite forallb_forall in Hfs. specialize (Hfs f Hf). destruct (f_name f); [exact Hfs|exact I]. }
      destruct fs as [|f0 fs0]; [injection H as <- <-; split; [apply Q_ascii; reflexivity|exact Hc]|].
      set (fs := f0 :: fs0) in *.
      destruct (all_named fs && negb (all_unnamed fs)).
      - apply bind_ok in H as ([ds c1] & E & H). injection H as <- <-.
        destruct (mapS_names _ _ _ _ _ Hall Hc E) as [Hds Hc1]. split; [|exact Hc1].
        pose proof (Q_join "," ds (Q_ascii "," eq_refl) Hds) as Hj. qok.
      - destruct (negb (all_named fs) && all_unnamed fs); [|discriminate].
        apply bind_ok in H as ([ds c1] & E & H). injection H as <- <-.
        destruct (mapS_names _ _ _ _ _ Hall Hc E) as [Hds Hc1]. split; [|exact Hc1].
        pose proof (Q_join "," ds (Q_ascii "," eq_refl) Hds) as Hj. qok.
    Qed.

    Lemma variant_desc_names v :
      Q (v_name v) = true -> fields_namesb Q (v_fields v) = true -> call_names (variant_desc rec) v.
    Proof.
      intros Hn Hfs c s c' Hc H. unfold variant_desc in H.
      apply bind_ok in H as ([fsd c1] & E & H). destruct (fields_desc_names _ Hfs _ _ _ Hc E) as [Hd Hc1].
      injection H as <- <-. split; [|exact Hc1]. destruct (String.eqb fsd "()"); qok.
    Qed.

    Lemma typedef_desc_names t : ty_names t -> call_names (typedef_desc rec) (t_def t).
    Proof.
      intros [_ Ht] c s c' Hc H.
      destruct (t_def t) as [fs|vs|e|len e|ts|p|e|store order]; cbn [typedef_desc] in H.
      - eapply fields_desc_names; eassumption.
      - apply bind_ok in H as ([ds c1] & E & H). injection H as <- <-.
        assert (Hall : forall v, In v vs -> call_names (variant_desc rec) v).
        { intros v Hv. rewrite forallb_forall in Ht. specialize (Ht v Hv).
          apply andb_prop in Ht as [H1 H2]. apply variant_desc_names; assumption. }
        destruct (mapS_names _ _ _ _ _ Hall Hc E) as [Hds Hc1]. split; [|exact Hc1].
        pose proof (Q_join "," ds (Q_ascii "," eq_refl) Hds) as Hj. qok.
      - apply bind_ok in H as ([d c1] & E & H). destruct (Hrec _ _ _ _ Hc E) as [Hd Hc1].
        injection H as <- <-. split; [qok|exact Hc1].
      - apply bind_ok in H as ([d c1] & E & H). destruct (Hrec _ _ _ _ Hc E) as [Hd Hc1].
        injection H as <- <-. split; [qok|exact Hc1].
      - apply bind_ok in H as ([ds c1] & E & H). injection H as <- <-.
        destruct (mapS_names rec ts _ _ _ (fun x _ => Hrec x) Hc E) as [Hds Hc1].
        split; [apply Q_tuple; exact Hds|exact Hc1].
      - injection H as <- <-. split; [apply Q_ascii, asciib_prim|exact Hc].
      - apply bind_ok in H as ([d c1] & E & H). destruct (Hrec _ _ _ _ Hc E) as [Hd Hc1].
        injection H as <- <-. split; [qok|exact Hc1].
      - apply bind_ok in H as ([o c1] & E1 & H). apply bind_ok in H as ([st c2] & E2 & H).
        destruct (Hrec _ _ _ _ Hc E1) as [Ho Hc1]. destruct (Hrec _ _ _ _ Hc1 E2) as [Hst Hc2].
        injection H as <- <-. split; [qok|exact Hc2].
    Qed.

    Lemma ty_desc_names nf t : ty_names t -> call_names (ty_desc (tname r nf) rec) t.
    Proof.
      intros Ht c s c' Hc H. unfold ty_desc in H.
      apply bind_ok in H as (nm & En & H). apply bind_ok in H as ([d c1] & E & H).
      destruct (typedef_desc_names t Ht _ _ _ Hc E) as [Hd Hc1]. injection H as <- <-. split; [|exact Hc1].
      assert (Hnm : Q nm = true).
      { destruct (is_named t); [eapply tname_names; eassumption|injection En as <-; apply Q_ascii; reflexivity]. }
      assert (Hp : Q (def_prefix (t_def t)) = true) by (apply Q_ascii; destruct (t_def t); reflexivity).
      qok.
    Qed.
  End Policy.

  Lemma dresolve_names nf : forall fuel id, call_names (dresolve r nf fuel) id.
  Proof.
    induction fuel as [|f IH]; intros id c s c' Hc H; [discriminate|]. cbn [dresolve] in H.
    destruct (resolve r id) as [t|] eqn:Er; [|discriminate].
    pose proof (names_resolve _ _ _ Hr Er) as Ht.
    assert (Hname : (let* n := tname r nf t in Ok (n, c)) = Ok (s, c') -> Q s = true /\ cache_names c').
    { intros E. apply bind_ok in E as (n & En & E). inversion E; subst.
      split; [eapply tname_names; eassumption|exact Hc]. }
    assert (Hexp : (let* (d, c1) := ty_desc (tname r nf) (dresolve r nf f) (cache_put c id CRec) t in
                    Ok (d, cache_put c1 id (CDone d))) = Ok (s, c') -> Q s = true /\ cache_names c').
    { intros E. apply bind_ok in E as ([d c1] & Ed & E). inversion E; subst.
      assert (Hc0 : cache_names (cache_put c id CRec)) by (constructor; [exact I|exact Hc]).
      destruct (ty_desc_names _ IH nf t Ht _ _ _ Hc0 Ed) as [Hd Hc1].
      split; [exact Hd|constructor; [exact Hd|exact Hc1]]. }
    destruct (cache_get c id) as [[|s0]|] eqn:Eg.
    - destruct (is_named t); auto.
    - destruct (is_named t); [auto|]. inversion H; subst.
      split; [eapply cache_get_names; eassumption|exact Hc].
    - auto.
  Qed.

  Theorem describe_names id s : describe r id = Ok s -> Q s = true.
  Proof.
    unfold describe, describe_with. intros H. apply bind_ok in H as ([d c'] & E & H). inversion H; subst.
    eapply dresolve_names; [|exact E]. constructor.
  Qed.
End Names.

(** ** 2. well-formed UTF-8: the decoder without fuel, chunk by chunk *)
Open Scope N_scope.

Fixpoint dec (l : list N) : list N :=
  match l with
  | [] => []
  | b0 :: r0 =>
    if b0 <? 128 then b0 :: dec r0
    else if b0 <? 224 then
      match r0 with
      | b1 :: r1 => ((b0 - 192) * 64 + (b1 - 128)) :: dec r1
      | _ => [b0]
      end
    else if b0 <? 240 then
      match r0 with
      | b1 :: b2 :: r2 => ((b0 - 224) * 4096 + (b1 - 128) * 64 + (b2 - 128)) :: dec r2
      | _ => b0 :: r0
      end
    else
      match r0 with
      | b1 :: b2 :: b3 :: r3 =>
          ((b0 - 240) * 262144 + (b1 - 128) * 4096 + (b2 - 128) * 64 + (b3 - 128)) :: dec r3
      | _ => b0 :: r0
      end
  end.

Lemma dec_fuel : forall fuel l, (List.length l < fuel)%nat -> utf8_decode_bytes fuel l = dec l.
Proof.
  induction fuel as [|fuel IH]; intros l Hl; [lia|].
  destruct l as [|b0 r0]; [reflexivity|]. cbn [utf8_decode_bytes dec]. cbn [List.length] in Hl.
  destruct (b0 <? 128); [rewrite IH by lia; reflexivity|].
  destruct (b0 <? 224).
  { destruct r0 as [|b1 r1]; [reflexivity|]. cbn [List.length] in Hl. rewrite IH by lia. reflexivity. }
  destruct (b0 <? 240).
  { destruct r0 as [|b1 [|b2 r2]]; try reflexivity. cbn [List.length] in Hl. rewrite IH by lia. reflexivity. }
  destruct r0 as [|b1 [|b2 [|b3 r3]]]; try reflexivity. cbn [List.length] in Hl. rewrite IH by lia. reflexivity.
Qed.

Lemma utf8_decode_dec s : utf8_decode s = dec (bytes_of_string s).
Proof. unfold utf8_decode. apply dec_fuel. lia. Qed.

(** a multi-byte sequence [ch] decoding to [v] *)
Definition chunk (ch : list N) (v : N) : Prop :=
  ch <> [] /\ Forall (fun b => 128 <= b) ch /\ 128 <= v /\
  (forall r, dec (ch ++ r) = v :: dec r) /\ (forall r, utf8_wfb (ch ++ r) = utf8_wfb r).

Lemma wf_ind (P : list N -> Prop) :
  P [] ->
  (forall b r, b < 128 -> utf8_wfb r = true -> P r -> P (b :: r)) ->
  (forall ch v r, chunk ch v -> utf8_wfb r = true -> P r -> P (ch ++ r)) ->
  forall l, utf8_wfb l = true -> P l.
Proof.
  intros P0 P1 Pc.
  assert (G : forall n l, (List.length l <= n)%nat -> utf8_wfb l = true -> P l).
  { induction n as [|n IH]; intros l Hl H.
    - destruct l; [exact P0|cbn [List.length] in Hl; lia].
    - destruct l as [|b0 r0]; [exact P0|]. cbn [List.length] in Hl. cbn [utf8_wfb] in H.
      destruct (b0 <? 128) eqn:E1.
      { apply N.ltb_lt in E1. apply P1; [exact E1|exact H|]. apply IH; [lia|exact H]. }
      apply N.ltb_ge in E1.
      destruct (b0 <? 224) eqn:E2.
      { destruct r0 as [|b1 r1]; [discriminate|]. cbn [List.length] in Hl.
        apply andb_prop in H as [H H3]. apply andb_prop in H as [H1 H2].
        apply N.leb_le in H1. apply N.leb_le in H2.
        apply (Pc [b0; b1] ((b0 - 192) * 64 + (b1 - 128)) r1); [|exact H3|apply IH; [lia|exact H3]].
        split; [discriminate|]. split; [repeat constructor; assumption|]. split; [exact H2|]. split.
        - intros r. cbn [app dec]. apply N.ltb_ge in E1. rewrite E1, E2. reflexivity.
        - intros r. cbn [app utf8_wfb]. apply N.ltb_ge in E1. rewrite E1, E2.
          apply N.leb_le in H1. apply N.leb_le in H2. rewrite H1, H2. reflexivity. }
      destruct (b0 <? 240) eqn:E3.
      { destruct r0 as [|b1 [|b2 r2]]; try discriminate. cbn [List.length] in Hl.
        apply andb_prop in H as [H H4]. apply andb_prop in H as [H H3]. apply andb_prop in H as [H1 H2].
        apply N.leb_le in H1. apply N.leb_le in H2. apply N.leb_le in H3.
        apply (Pc [b0; b1; b2] ((b0 - 224) * 4096 + (b1 - 128) * 64 + (b2 - 128)) r2);
          [|exact H4|apply IH; [lia|exact H4]].
        split; [discriminate|]. split; [repeat constructor; assumption|]. split; [exact H3|]. split.
        - intros r. cbn [app dec]. apply N.ltb_ge in E1. rewrite E1, E2, E3. reflexivity.
        - intros r. cbn [app utf8_wfb]. apply N.ltb_ge in E1. rewrite E1, E2, E3.
          apply N.leb_le in H1. apply N.leb_le in H2. apply N.leb_le in H3. rewrite H1, H2, H3. reflexivity. }
      destruct r0 as [|b1 [|b2 [|b3 r3]]]; try discriminate. cbn [List.length] in Hl.
      apply andb_prop in H as [H H5]. apply andb_prop in H as [H H4]. apply andb_prop in H as [H H3].
      apply andb_prop in H as [H1 H2].
      apply N.leb_le in H1. apply N.leb_le in H2. apply N.leb_le in H3. apply N.leb_le in H4.
      apply (Pc [b0; b1; b2; b3]
                ((b0 - 240) * 262144 + (b1 - 128) * 4096 + (b2 - 128) * 64 + (b3 - 128)) r3);
        [|exact H5|apply IH; [lia|exact H5]].
      split; [discriminate|]. split; [repeat constructor; assumption|]. split; [exact H4|]. split.
      + intros r. cbn [app dec]. apply N.ltb_ge in E1. rewrite E1, E2, E3. reflexivity.
      + intros r. cbn [app utf8_wfb]. apply N.ltb_ge in E1. rewrite E1, E2, E3.
        apply N.leb_le in H1. apply N.leb_le in H2. apply N.leb_le in H3. apply N.leb_le in H4.
        rewrite H1, H2, H3, H4. reflexivity. }
  intros l. apply (G (List.length l)). lia.
Qed.

Lemma wf_app l1 l2 : utf8_wfb l1 = true -> utf8_wfb l2 = true -> utf8_wfb (l1 ++ l2) = true.
Proof.
  intros H1 H2. revert l1 H1. apply (wf_ind (fun l1 => utf8_wfb (l1 ++ l2) = true)).
  - exact H2.
  - intros b r Hb _ IH. cbn [app utf8_wfb]. apply N.ltb_lt in Hb. rewrite Hb. exact IH.
  - intros ch v r (_ & _ & _ & _ & Hw) _ IH. rewrite <- app_assoc, Hw. exact IH.
Qed.

Lemma dec_app l1 l2 : utf8_wfb l1 = true -> dec (l1 ++ l2) = dec l1 ++ dec l2.
Proof.
  intros H1. revert l1 H1. apply (wf_ind (fun l1 => dec (l1 ++ l2) = dec l1 ++ dec l2)).
  - reflexivity.
  - intros b r Hb _ IH. cbn [app dec]. apply N.ltb_lt in Hb. rewrite Hb, IH. reflexivity.
  - intros ch v r (_ & _ & _ & Hd & _) _ IH. rewrite <- app_assoc, !Hd, IH. reflexivity.
Qed.

Lemma dec_nonnil l : utf8_wfb l = true -> l <> [] -> dec l <> [].
Proof.
  intros H. revert l H. apply (wf_ind (fun l => l <> [] -> dec l <> [])).
  - congruence.
  - intros b r Hb _ _ _. cbn [dec]. apply N.ltb_lt in Hb. rewrite Hb. discriminate.
  - intros ch v r (_ & _ & _ & Hd & _) _ _ _. rewrite Hd. discriminate.
Qed.

Lemma wf_ascii_bytes l : Forall (fun b => b < 128) l -> utf8_wfb l = true.
Proof.
  induction 1 as [|b l Hb _ IH]; [reflexivity|]. cbn [utf8_wfb]. apply N.ltb_lt in Hb. rewrite Hb. exact IH.
Qed.

Lemma bytes_app a b : bytes_of_string (a ++ b)%string = bytes_of_string a ++ bytes_of_string b.
Proof. induction a as [|c a IH]; cbn [String.append bytes_of_string app]; [reflexivity|]. rewrite IH. reflexivity. Qed.

Lemma utf8_okb_app a b : utf8_okb a = true -> utf8_okb b = true -> utf8_okb (a ++ b)%string = true.
Proof. unfold utf8_okb. rewrite bytes_app. apply wf_app. Qed.

Lemma utf8_okb_ascii s : asciib s = true -> utf8_okb s = true.
Proof. intros H. apply wf_ascii_bytes, asciib_bytes, H. Qed.

(** the description of a registry with well-formed names is well-formed *)
Theorem describe_utf8 r id s : utf8_regb r = true -> describe r id = Ok s -> utf8_okb s = true.
Proof. intros Hu E. exact (describe_names utf8_okb utf8_okb_app utf8_okb_ascii r Hu id s E). Qed.

(** ** 3. decoding commutes with tokenization on well-formed texts *)
Definition dctok (t : ctok) : ctok := match t with CW w => CW (dec w) | CP c => CP c end.

Lemma high_not_sep b : 128 <= b -> is_cspace b = false /\ is_cpunct b = false.
Proof.
  intros H. unfold is_cspace, is_cpunct. cbn [existsb]. split;
    repeat match goal with |- context [N.eqb b ?k] => destruct (N.eqb_spec b k); [lia|] end; reflexivity.
Qed.

Lemma cstep_word st b : is_cspace b = false -> is_cpunct b = false -> cstep st b = (b :: fst st, snd st).
Proof. intros H1 H2. unfold cstep. rewrite H1, H2. reflexivity. Qed.

Lemma crun_word ch : Forall (fun b => 128 <= b) ch -> forall st, crun ch st = (rev ch ++ fst st, snd st).
Proof.
  induction 1 as [|b ch Hb _ IH]; intros st; [destruct st; reflexivity|].
  change (crun (b :: ch) st) with (crun ch (cstep st b)).
  destruct (high_not_sep b Hb) as [H1 H2]. rewrite (cstep_word st b H1 H2), IH. cbn [fst snd rev].
  rewrite <- app_assoc. reflexivity.
Qed.

Definition Rel (st1 st2 : cstate) : Prop :=
  utf8_wfb (rev (fst st1)) = true /\ fst st2 = rev (dec (rev (fst st1))) /\ snd st2 = map dctok (snd st1).

Lemma cflush_rel st1 st2 :
  Rel st1 st2 -> cflush (fst st2) (snd st2) = map dctok (cflush (fst st1) (snd st1)).
Proof.
  intros (Hw & Hf & Hs). rewrite Hs. unfold cflush.
  destruct (fst st1) as [|x w1] eqn:E1.
  - rewrite Hf. reflexivity.
  - destruct (fst st2) as [|y w2] eqn:E2.
    + exfalso. symmetry in Hf. apply (f_equal (@rev N)) in Hf. rewrite rev_involutive in Hf. cbn [rev] in Hf.
      apply (dec_nonnil _ Hw); [|exact Hf]. cbn [rev]. destruct (rev w1); discriminate.
    + cbn [map dctok]. rewrite Hf, rev_involutive. reflexivity.
Qed.

Lemma Rel_push st1 st2 ch v :
  Rel st1 st2 -> utf8_wfb ch = true -> dec ch = [v] ->
  Rel (rev ch ++ fst st1, snd st1) (v :: fst st2, snd st2).
Proof.
  intros (Hw & Hf & Hs) Hch Hd. unfold Rel. cbn [fst snd].
  rewrite rev_app_distr, rev_involutive. split; [apply wf_app; assumption|]. split; [|exact Hs].
  rewrite (dec_app _ _ Hw), Hd, rev_app_distr, Hf. reflexivity.
Qed.

Lemma crun_dec : forall l, utf8_wfb l = true ->
  forall st1 st2, Rel st1 st2 -> Rel (crun l st1) (crun (dec l) st2).
Proof.
  apply (wf_ind (fun l => forall st1 st2, Rel st1 st2 -> Rel (crun l st1) (crun (dec l) st2))).
  - intros st1 st2 H. exact H.
  - intros b r Hb _ IH st1 st2 H. cbn [dec]. pose proof Hb as Hb'. apply N.ltb_lt in Hb'. rewrite Hb'.
    change (crun (b :: r) st1) with (crun r (cstep st1 b)).
    change (crun (b :: dec r) st2) with (crun (dec r) (cstep st2 b)).
    apply IH. unfold cstep. destruct (is_cspace b).
    + split; [reflexivity|]. split; [reflexivity|]. cbn [snd]. apply cflush_rel; exact H.
    + destruct (is_cpunct b).
      * split; [reflexivity|]. split; [reflexivity|]. cbn [snd map dctok]. f_equal. apply cflush_rel; exact H.
      * apply (Rel_push st1 st2 [b] b H).
        -- cbn [utf8_wfb]. rewrite Hb'. reflexivity.
        -- cbn [dec]. rewrite Hb'. reflexivity.
  - intros ch v r (Hne & Hhi & Hv & Hd & Hw) _ IH st1 st2 H.
    rewrite Hd. unfold crun at 1. rewrite fold_left_app. fold (crun ch st1). fold (crun r (crun ch st1)).
    change (crun (v :: dec r) st2) with (crun (dec r) (cstep st2 v)).
    apply IH. rewrite (crun_word ch Hhi st1).
    destruct (high_not_sep v Hv) as [H1 H2]. rewrite (cstep_word st2 v H1 H2).
    apply Rel_push; [exact H| |].
    + specialize (Hw []). rewrite app_nil_r in Hw. exact Hw.
    + specialize (Hd []). rewrite app_nil_r in Hd. exact Hd.
Qed.

Theorem ctokens_dec l : utf8_wfb l = true -> ctokens (dec l) = map dctok (ctokens l).
Proof.
  intros H. unfold ctokens. cbv zeta.
  assert (R0 : Rel ([], []) ([], [])) by (split; [reflexivity|split; reflexivity]).
  pose proof (crun_dec l H _ _ R0) as R. rewrite (cflush_rel _ _ R), map_rev. reflexivity.
Qed.

(** the bridge on well-formed UTF-8 *)
Theorem utf8_bridge s :
  utf8_okb s = true -> ctokens (utf8_decode s) = map dtok_of_tok (tokens s).
Proof.
  intros H. rewrite utf8_decode_dec, (ctokens_dec _ H), tokenizers_agree, map_map.
  apply map_ext. intros [w|c]; cbn [ctok_of_tok dctok dtok_of_tok]; [|reflexivity].
  rewrite utf8_decode_dec. reflexivity.
Qed.

(** ** 4. the FORMATTED description in lockstep with the spec tree, names in well-formed UTF-8 *)
Theorem describe_formatted_lockstep_utf8 r id s l :
  words_okb r = true -> paths_only_on_items r = true -> utf8_regb r = true ->
  describe r id = Ok s -> describe_fmt r id = Ok l ->
  exists tr st,
    spec_tree r (name_fuel r) (desc_fuel r) ([], []) id = Some (tr, st) /\
    ctokens l = map dtok_of_tok (atoms tr).
Proof.
  intros Hw Hi Hu E F.
  destruct (describe_lockstep r id s Hw Hi E) as (tr & st & V & T).
  exists tr, st. split; [exact V|].
  rewrite (describe_format_ctokens r id s l E F), (utf8_bridge s (describe_utf8 r id s Hu E)), T. reflexivity.
Qed.

(** ASCII registries are a special case *)
Lemma ascii_reg_utf8 r : ascii_regb r = true -> utf8_regb r = true.
Proof.
  unfold ascii_regb, utf8_regb, names_okb. intros H. rewrite forallb_forall in *. intros e He.
  specialize (H e He). apply andb_prop in H as [H1 H2]. apply andb_true_intro. split.
  - rewrite forallb_forall in *. intros x Hx. apply utf8_okb_ascii, H1, Hx.
  - assert (G : forall fs, fields_asciib fs = true -> fields_namesb utf8_okb fs = true).
    { intros fs Hf. unfold fields_asciib, fields_namesb in *. rewrite forallb_forall in *. intros f Hin.
      specialize (Hf f Hin). destruct (f_name f); [apply utf8_okb_ascii; exact Hf|reflexivity]. }
    destruct (t_def (snd e)); try reflexivity; [apply G; exact H2|].
    rewrite forallb_forall in *. intros v Hv. specialize (H2 v Hv). apply andb_prop in H2 as [A B].
    apply andb_true_intro. split; [apply utf8_okb_ascii; exact A|apply G; exact B].
Qed.

(** ** non-vacuity: a::Cafe { naive: u8 } with e-acute / i-diaeresis encoded in UTF-8 *)
Example utf8_example_hyps :
  (words_okb utf8_example_reg && paths_only_on_items utf8_example_reg && utf8_regb utf8_example_reg
   && negb (ascii_regb utf8_example_reg) && is_ok (describe_fmt utf8_example_reg 0))%bool = true.
Proof. vm_compute. reflexivity. Qed.

Example utf8_example_tokens :
  rmap ctokens (describe_fmt utf8_example_reg 0) =
  Ok [CW [115; 116; 114; 117; 99; 116]; CW [67; 97; 102; 233]; CP 123;
      CW [110; 97; 239; 118; 101]; CP 58; CW [117; 56]; CP 125].
Proof. vm_compute. reflexivity. Qed.
