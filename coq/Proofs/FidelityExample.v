(** A concrete registry on which the shape semantics of Model/Shape.v is exercised
    (non-vacuity of the hypotheses of C01 / C03 / C18): nested modules, a two-parameter
    generic enum with a compact and a boxed recursive field in three instantiations, a
    prelude type, Cow, a pass-through and a parameter-mapping substitute, a bit sequence. *)
From Coq Require Import List NArith String Bool.
From V Require Import Base.Util Base.Strings Base.Result Model.Registry Model.Settings Model.Subst
  Model.TypePath Model.Derives Model.Generate Model.Equal Model.Shape.
Import ListNotations.
Open Scope string_scope. Open Scope list_scope. Open Scope N_scope.

Definition fld (n : string) (ty : N) (tn : string) : field := mk_field (Some n) ty (Some tn) [].
Definition ufld (ty : N) : field := mk_field None ty None [].
Definition tp (n : string) (ty : N) : tparam := mk_tparam n (Some ty).
Definition plain (d : typedef) : ty := mk_ty [] [] d [].

Definition tree (t u ct self vec : N) : ty :=
  mk_ty ["a"; "b"; "Tree"] [tp "T" t; tp "U" u]
    (TDVariant
       [ mk_variant "Leaf" [fld "val" ct "T"; fld "n" t "T"] 0 [];
         mk_variant "Node" [fld "left" self "Box<Tree<T, U>>"; fld "items" vec "Vec<U>"] 3 [] ]) [].

Definition ex_reg : registry :=
  [ (0, plain (TDPrimitive PU8));
    (1, plain (TDPrimitive PU32));
    (2, plain (TDPrimitive PU64));
    (3, plain (TDCompact 0));
    (4, plain (TDCompact 1));
    (5, plain (TDCompact 2));
    (6, tree 0 1 3 6 7);
    (7, plain (TDSequence 1));
    (8, tree 1 0 4 8 9);
    (9, plain (TDSequence 0));
    (10, tree 2 12 5 10 11);
    (11, plain (TDSequence 12));
    (12, mk_ty ["a"; "Wrap"] []
           (TDComposite [fld "inner" 6 "Tree<u8, u32>"; fld "opt" 13 "Option<u8>";
                         fld "arr" 14 "[u8; 4]"; fld "tup" 15 "(u8, u32)";
                         fld "cow" 16 "Cow<'static, u8>"; fld "ext" 17 "Ext<u8>";
                         fld "bits" 18 "BitVec<u8, Lsb0>"; fld "sp" 20 "Spec<u32>"]) []);
    (13, mk_ty ["Option"] [tp "T" 0]
           (TDVariant [mk_variant "None" [] 0 []; mk_variant "Some" [ufld 0] 1 []]) []);
    (14, plain (TDArray 4 0));
    (15, plain (TDTuple [0; 1]));
    (16, mk_ty ["Cow"] [tp "T" 0] (TDComposite [ufld 0]) []);
    (17, mk_ty ["sub"; "Ext"] [tp "T" 0] (TDComposite [ufld 0]) []);
    (18, plain (TDBitSeq 0 19));
    (19, mk_ty ["bitvec"; "order"; "Lsb0"] [] (TDComposite []) []);
    (20, mk_ty ["sub"; "Spec"] [tp "A" 1] (TDComposite [ufld 1]) []) ].

Definition ex_subs : substitutes :=
  [ (["sub"; "Ext"], mk_subst (mk_spath true [("ext", ANone); ("Ext", ANone)]) PassThrough);
    (["bitvec"; "order"; "Lsb0"],
     mk_subst (mk_spath true [("bitvec", ANone); ("order", ANone); ("Lsb0", ANone)]) PassThrough);
    (["sub"; "Spec"],
     mk_subst (mk_spath true [("ext", ANone);
                              ("Spec", AAngle [GType (GTPath false false [("A", ANone)])])])
              (Specified [("A", 0%nat)])) ].

Definition ex_settings : settings :=
  mk_settings "types" true dreg_empty ex_subs
    (Some (abs_path ["ext"; "DecodedBits"])) None (Some (abs_path ["codec"; "Compact"]))
    true AStd.

Definition ex_items : items :=
  match generate ex_reg ex_settings (types_equal ex_reg) with
  | Ok m => m
  | _ => []
  end.

Definition ex_paths := map (fun e => resolve_type_path ex_reg ex_settings (fst e)) ex_reg.

(** ** non-vacuity: the example satisfies every hypothesis of the fidelity theorem *)
From V Require Import Proofs.GenProofs Proofs.FidelityBase Proofs.ShapeBool Proofs.Fidelity
  Proofs.FidelityGen.

Example ex_generate_ok :
  generate ex_reg ex_settings (types_equal ex_reg) = Ok ex_items /\
  map fst ex_items = [["a"; "Wrap"]; ["a"; "b"; "Tree"]].
Proof. vm_compute. split; reflexivity. Qed.

Example ex_skeleton_consistentb : skeleton_consistentb ex_reg ex_settings = true.
Proof. vm_compute. reflexivity. Qed.

Example ex_skeleton_consistent : skeleton_consistent ex_reg ex_settings.
Proof. apply skeleton_consistentb_sound. exact ex_skeleton_consistentb. Qed.

Example ex_root_fresh : root_fresh ex_settings.
Proof. apply root_freshb_sound. vm_compute. reflexivity. Qed.

(** every id resolves, and the two readings agree at the depths 0..6 (computed) *)
Example ex_all_resolve : forallb (fun x => is_ok x) ex_paths = true.
Proof. vm_compute. reflexivity. Qed.

Example ex_faithful_upto_6 : faithful_upto ex_reg ex_settings ex_items 7 = true.
Proof. vm_compute. reflexivity. Qed.

(** ... and at every depth (by the theorem, whose hypotheses are therefore satisfiable) *)
Example ex_faithful : Faithful ex_reg ex_settings ex_items.
Proof.
  eapply generate_faithful;
    [exact ex_skeleton_consistent|exact ex_root_fresh|exact (proj1 ex_generate_ok)].
Qed.

(** a coincidence: the second instantiation binds T to the id of the element type of the
    [Vec<u32>] field, so its own skeleton ([y : Vec<_0>]) differs from the kept one
    ([y : Vec<u32>]) - the predicate says so *)
Definition ex_reg_bad : registry :=
  [ (0, plain (TDPrimitive PU8));
    (1, plain (TDPrimitive PU32));
    (2, mk_ty ["a"; "Foo"] [tp "T" 0] (TDComposite [fld "x" 0 "T"; fld "y" 4 "Vec<u32>"]) []);
    (3, mk_ty ["a"; "Foo"] [tp "T" 1] (TDComposite [fld "x" 1 "T"; fld "y" 4 "Vec<u32>"]) []);
    (4, plain (TDSequence 1)) ].

Example ex_bad_inconsistent : skeleton_consistentb ex_reg_bad ex_settings = false.
Proof. vm_compute. reflexivity. Qed.
