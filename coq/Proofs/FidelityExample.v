(** A concrete registry on which the shape semantics of Model/Shape.v is exercised
    (non-vacuity of the hypotheses of C01 / C03 / C18): nested modules, a two-parameter
    generic enum with a compact and a boxed recursive field in three instantiations, a
    prelude type, Cow, a pass-through and a parameter-mapping substitute, a bit sequence. *)
From Coq Require Import List NArith String Bool.
From V Require Import Base.Util Base.Strings Base.Result Model.Registry Model.Settings Model.Subst
  Model.TypePath Model.Derives Model.Generate Model.Equal Model.Shape.
Import ListNotations.
Open Scope string_scope. Open Scope list_scope. Open Scope N_scope.

Definition fld (n : string) (ty : N) (tn : string) : field := mk_field (Some n) ty (Some tn) [].
Definition ufld (ty : N) : field := mk_field None ty None [].
Definition tp (n : string) (ty : N) : tparam := mk_tparam n (Some ty).
Definition plain (d : typedef) : ty := mk_ty [] [] d [].

Definition tree (t u ct self vec : N) : ty :=
  mk_ty ["a"; "b"; "Tree"] [tp "T" t; tp "U" u]
    (TDVariant
       [ mk_variant "Leaf" [fld "val" ct "T"; fld "n" t "T"] 0 [];
         mk_variant "Node" [fld "left" self "Box<Tree<T, U>>"; fld "items" vec "Vec<U>"] 3 [] ]) [].

Definition ex_reg : registry :=
  [ (0, plain (TDPrimitive PU8));
    (1, plain (TDPrimitive PU32));
    (2, plain (TDPrimitive PU64));
    (3, plain (TDCompact 0));
    (4, plain (TDCompact 1));
    (5, plain (TDCompact 2));
    (6, tree 0 1 3 6 7);
    (7, plain (TDSequence 1));
    (8, tree 1 0 4 8 9);
    (9, plain (TDSequence 0));
    (10, tree 2 12 5 10 11);
    (11, plain (TDSequence 12));
    (12, mk_ty ["a"; "Wrap"] []
           (TDComposite [fld "inner" 6 "Tree<u8, u32>"; fld "opt" 13 "Option<u8>";
                         fld "arr" 14 "[u8; 4]"; fld "tup" 15 "(u8, u32)";
                         fld "cow" 16 "Cow<'static, u8>"; fld "ext" 17 "Ext<u8>";
                         fld "bits" 18 "BitVec<u8, Lsb0>"; fld "sp" 20 "Spec<u32>"]) []);
    (13, mk_ty ["Option"] [tp "T" 0]
           (TDVariant [mk_variant "None" [] 0 []; mk_variant "Some" [ufld 0] 1 []]) []);
    (14, plain (TDArray 4 0));
    (15, plain (TDTuple [0; 1]));
    (16, mk_ty ["Cow"] [tp "T" 0] (TDComposite [ufld 0]) []);
    (17, mk_ty ["sub"; "Ext"] [tp "T" 0] (TDComposite [ufld 0]) []);
    (18, plain (TDBitSeq 0 19));
    (19, mk_ty ["bitvec"; "order"; "Lsb0"] [] (TDComposite []) []);
    (20, mk_ty ["sub"; "Spec"] [tp "A" 1] (TDComposite [ufld 1]) []) ].

Definition ex_subs : substitutes :=
  [ (["sub"; "Ext"], mk_subst (mk_spath true [("ext", ANone); ("Ext", ANone)]) PassThrough);
    (["bitvec"; "order"; "Lsb0"],
     mk_subst (mk_spath true [("bitvec", ANone); ("order", ANone); ("Lsb0", ANone)]) PassThrough);
    (["sub"; "Spec"],
     mk_subst (mk_spath true [("ext", ANone);
                              ("Spec", AAngle [GType (GTPath false false [("A", ANone)])])])
              (Specified [("A", 0%nat)])) ].

Definition ex_settings : settings :=
  mk_settings "types" true dreg_empty ex_subs
    (Some (abs_path ["ext"; "DecodedBits"])) None (Some (abs_path ["codec"; "Compact"]))
    true AStd.

Definition ex_items : items :=
  match generate ex_reg ex_settings (types_equal ex_reg) with
  | Ok m => m
  | _ => []
  end.

Definition ex_paths := map (fun e => resolve_type_path ex_reg ex_settings (fst e)) ex_reg.
