(** Proofs about the model of Rust value examples (C14).

    1. [example_total]: the example generator returns Ok or a documented
       error -- never a panic, never fuel exhaustion -- on registries whose
       element graph (sequence / array / tuple / compact edges) is ranked and
       whose field / variant names are identifiers, PROVIDED the two calls into
       the type generator ([resolve_type_path] + printing, [create_type_ir])
       are total on the registry (hypothesis [tg_total], a decidable statement
       about the typegen model that is evaluated on every generated case).
       This is the termination argument of rust_value.rs: a nested
       [Transformer::resolve] marks a new id (depth <= #entries), and the
       sequence / array arms, which bypass the marker, descend along ranked
       edges only.
    2. lemmas relating model output to the independent reader of
       [Corr/RunC14.v]. *)
From Coq Require Import List NArith ZArith Bool String Ascii Lia.
From V Require Import Base.Util Base.Strings Base.Result Model.Registry Model.Settings Model.Subst
  Model.TypePath Model.Derives Model.Generate Model.RngWords Model.ExampleRust.
Import ListNotations.
Open Scope list_scope.

(** ** range of [slice.choose] *)
Lemma sample_loop_lt range zone : (0 < range)%N -> forall ws hi rest,
  sample_loop range zone ws = Drawn hi rest -> (hi < range)%N.
Proof.
  intros Hr. induction ws as [|w ws IH]; cbn [sample_loop]; intros hi rest H; [discriminate|].
  destruct (N.leb _ zone).
  - inversion H; subst. apply N.div_lt_upper_bound; [discriminate|].
    apply (proj1 (N.mul_lt_mono_pos_r range (w mod two32) two32 Hr)).
    apply N.mod_lt. discriminate.
  - eapply IH; eauto.
Qed.

Lemma choose_in {A} (l : list A) ws a rest : choose l ws = Drawn (Some a) rest -> In a l.
Proof.
  unfold choose. destruct l as [|x l]; [cbn; discriminate|].
  unfold rng_bind. destruct (gen_index _ ws) as [i ws'|]; [|discriminate].
  unfold rng_ret. intros H. inversion H. eapply nth_error_In; eauto.
Qed.

Lemma choose_some {A} (l : list A) ws o rest :
  l <> [] -> (N.of_nat (List.length l) < two32)%N -> choose l ws = Drawn o rest -> o <> None.
Proof.
  intros Hne Hlt. unfold choose. destruct l as [|x l]; [congruence|].
  unfold rng_bind, gen_index, sample_u32. rewrite N.mod_small by exact Hlt.
  destruct (N.eqb (N.of_nat (List.length (x :: l))) 0) eqn:E.
  - apply N.eqb_eq in E. cbn [List.length] in E. lia.
  - destruct (sample_loop _ _ ws) as [i ws'|] eqn:S; [|discriminate].
    unfold rng_ret. intros H. inversion H; subst.
    apply sample_loop_lt in S; [|cbn [List.length]; lia].
    apply nth_error_Some. lia.
Qed.

(** ** cache facts *)
Definition inprog (c : cache) (id : N) : bool :=
  match cache_get c id with Some CRecursive => true | _ => false end.

Lemma cache_get_set c id e i :
  cache_get (cache_set id e c) i = if N.eqb i id then Some e else cache_get c i.
Proof.
  induction c as [|[k e'] c IH]; cbn [cache_set cache_get].
  - rewrite N.eqb_sym. reflexivity.
  - destruct (N.eqb k id) eqn:K; cbn [cache_get].
    + apply N.eqb_eq in K; subst k. rewrite (N.eqb_sym i id).
      destruct (N.eqb id i); reflexivity.
    + destruct (N.eqb k i) eqn:Ki.
      * apply N.eqb_eq in Ki; subst k. rewrite K. reflexivity.
      * exact IH.
Qed.

Definition same_prog (c0 c : cache) : Prop := forall i, inprog c i = inprog c0 i.

Lemma same_prog_refl c : same_prog c c. Proof. intros i; reflexivity. Qed.

(** ** the invariant-preserving, non-crashing computations *)
Definition post {A} (c0 : cache) (x : xres (A * st)) : Prop :=
  match x with
  | XOk (_, s') => same_prog c0 (fst s')
  | XErr e => e <> XOutOfFuel
  | XPanic _ => False
  end.

Definition GP {A} (c0 : cache) (m : M A) : Prop :=
  forall s, same_prog c0 (fst s) -> post c0 (m s).

Lemma GP_ret {A} c0 (a : A) : GP c0 (mret a).
Proof. intros s H; exact H. Qed.

Lemma GP_fail {A} c0 e : e <> XOutOfFuel -> GP c0 (@mfail A e).
Proof. intros He s H; exact He. Qed.

Lemma GP_bind {A B} c0 (m : M A) (f : A -> M B) :
  GP c0 m -> (forall a, GP c0 (f a)) -> GP c0 (mbind m f).
Proof.
  intros Hm Hf s Hs. unfold mbind. specialize (Hm s Hs).
  destruct (m s) as [[a s']|e|msg]; cbn in *; auto. apply Hf; auto.
Qed.

Lemma GP_mdraw {A} c0 (d : rng A) : GP c0 (mdraw d).
Proof.
  intros s Hs. unfold mdraw. destruct (d (snd s)); cbn; [exact Hs|discriminate].
Qed.

Lemma GP_draw_choose {A B} c0 (l : list A) (f : option A -> M B) :
  (forall o, (forall a, o = Some a -> In a l) -> GP c0 (f o)) ->
  GP c0 (mbind (mdraw (choose l)) f).
Proof.
  intros Hf s Hs. unfold mbind, mdraw. destruct (choose l (snd s)) as [o rest|] eqn:E; cbn.
  - apply Hf; [|exact Hs]. intros a ->. eapply choose_in; eauto.
  - discriminate.
Qed.

Lemma GP_choose_unwrap {A} c0 (l : list A) :
  l <> [] -> (N.of_nat (List.length l) < two32)%N -> GP c0 (choose_unwrap l).
Proof.
  intros Hne Hlt s Hs. unfold choose_unwrap, mbind, mdraw.
  destruct (choose l (snd s)) as [o rest|] eqn:E; cbn; [|discriminate].
  destruct o as [a|]; cbn; [exact Hs|]. eapply choose_some in E; eauto.
Qed.

Definition tg_good {A} (x : result A) : Prop :=
  match x with Panic _ => False | Err EOutOfFuel => False | _ => True end.

Lemma GP_lift {A} c0 (x : result A) : tg_good x -> GP c0 (lift x).
Proof.
  intros Hx s Hs. unfold lift. destruct x as [a|e|m]; cbn in *; auto.
  destruct e; cbn; try discriminate. destruct Hx.
Qed.

Lemma GP_mmapM {A B} c0 (f : A -> M B) (l : list A) :
  (forall x, In x l -> GP c0 (f x)) -> GP c0 (mmapM f l).
Proof.
  induction l as [|x l IH]; intros H; cbn [mmapM]; [apply GP_ret|].
  apply GP_bind; [apply H; left; reflexivity|]. intros y.
  apply GP_bind; [apply IH; intros; apply H; right; assumption|]. intros; apply GP_ret.
Qed.

Lemma GP_format_ident c0 x : ident_lexb x = true -> GP c0 (format_ident x).
Proof. intros H. unfold format_ident. rewrite H. apply GP_ret. Qed.

Lemma GP_prim c0 p : GP c0 (prim_example p).
Proof.
  destruct p; cbn [prim_example];
    try (apply GP_bind; [apply GP_mdraw|intros; apply GP_ret]);
    (apply GP_bind; [apply GP_choose_unwrap; [discriminate|reflexivity]|intros; apply GP_ret]).
Qed.

(** ** hypotheses of the totality theorem *)

(** sequence / array / tuple / compact edges: what [ty_example] and
    [type_def_is_copy] follow without the in-progress marker *)
Definition elem_children (d : typedef) : list N :=
  match d with
  | TDSequence e | TDArray _ e | TDCompact e => [e]
  | TDTuple ts => ts
  | _ => []
  end.

Section Total.
  Variable r : registry.
  Variable s : settings.

  (** a rank function: strictly decreasing along element edges, bounded by the
      number of entries (every finite acyclic graph has one: longest path) *)
  Definition ranked (rk : N -> nat) : Prop :=
    forall id t, lookup r id = Some t ->
      (rk id <= List.length r)%nat /\ Forall (fun j => (rk j < rk id)%nat) (elem_children (t_def t)).

  (** field and variant names are lexically identifiers ([format_ident!] does not panic) *)
  Definition fields_lex (fs : list field) : Prop :=
    forall f n, In f fs -> f_name f = Some n -> ident_lexb n = true.
  Definition names_lex : Prop :=
    forall id t, lookup r id = Some t ->
      match t_def t with
      | TDComposite fs => fields_lex fs
      | TDVariant vs => forall v, In v vs -> ident_lexb (v_name v) = true /\ fields_lex (v_fields v)
      | _ => True
      end.

  (** the type generator is total on the struct / enum entries: neither the
      path (resolve + print) nor the IR construction panics or diverges *)
  Definition tg_total : Prop :=
    forall id t, lookup r id = Some t -> is_composite_or_variant (t_def t) = true ->
      tg_good (path_omit_generics r s id) /\ tg_good (has_unused_type_params r s t).

  Variable rk : N -> nat.
  Hypothesis Hrank : ranked rk.
  Hypothesis Hnames : names_lex.
  Hypothesis Htg : tg_total.

  Lemma GP_resolve_type {B} c0 e (f : ty -> M B) :
    (forall te, lookup r e = Some te -> GP c0 (f te)) -> GP c0 (mbind (resolve_type_m r e) f).
  Proof.
    intros Hf st0 Hs. unfold mbind, resolve_type_m.
    destruct (lookup r e) as [te|] eqn:E; cbn.
    - apply Hf; auto.
    - discriminate.
  Qed.

  Lemma GP_is_copy c0 : forall fuel id t,
    lookup r id = Some t -> (rk id < fuel)%nat -> GP c0 (is_copy r fuel (t_def t)).
  Proof.
    induction fuel as [|fuel IH]; intros id t Hl Hlt; [lia|].
    destruct (Hrank id t Hl) as [_ Hch].
    destruct (t_def t) eqn:D; cbn [is_copy]; try apply GP_ret; cbn [elem_children] in Hch.
    - (* array *)
      apply GP_resolve_type. intros te Hte. destruct (N.leb len 32); [|apply GP_ret].
      inversion Hch; subst. eapply IH; eauto. lia.
    - (* tuple *)
      clear D. induction ts as [|i ts IHts]; [apply GP_ret|].
      inversion Hch; subst.
      apply GP_resolve_type. intros te Hte.
      apply GP_bind; [eapply IH; eauto; lia|].
      intros b. destruct b; [apply IHts; assumption|apply GP_ret].
    - (* compact *)
      apply GP_resolve_type. intros te Hte. inversion Hch; subst. eapply IH; eauto. lia.
  Qed.

  Lemma all_named_some fs f : all_named fs = true -> In f fs -> exists n, f_name f = Some n.
  Proof.
    unfold all_named. rewrite forallb_forall. intros H Hin. specialize (H f Hin).
    destruct (f_name f); [eauto|discriminate].
  Qed.

  Lemma GP_fields c0 (rec : N -> M tokens) fs b :
    (forall j, GP c0 (rec j)) -> fields_lex fs -> GP c0 (fields_example rec fs b).
  Proof.
    intros Hrec Hlex. unfold fields_example.
    destruct (all_named fs) eqn:An; destruct (all_unnamed fs) eqn:Au.
    - apply GP_ret.
    - apply GP_bind; [|intros; apply GP_ret]. apply GP_mmapM. intros f Hf.
      unfold named_field. destruct (all_named_some fs f An Hf) as [n Hn]. rewrite Hn.
      apply GP_bind; [apply GP_format_ident; eapply Hlex; eauto|]. intros i.
      apply GP_bind; [apply Hrec|]. intros; apply GP_ret.
    - apply GP_bind; [|intros; apply GP_ret]. apply GP_mmapM. intros f Hf.
      unfold unnamed_field. apply GP_bind; [apply Hrec|]. intros; apply GP_ret.
    - apply GP_fail. discriminate.
  Qed.

  (** [ty_example] under an invariant-preserving [resolve] *)
  Lemma GP_ty_go c0 (rec : N -> M tokens) :
    (forall j, GP c0 (rec j)) ->
    forall fi id t, lookup r id = Some t -> (rk id < fi)%nat -> GP c0 (ty_go r s rec fi id t).
  Proof.
    intros Hrec. induction fi as [|fi IH]; intros id t Hl Hlt; [lia|].
    destruct (Hrank id t Hl) as [Hb Hch].
    pose proof (Hnames id t Hl) as Hn. pose proof (Htg id t Hl) as Ht.
    destruct (t_def t) eqn:D; cbn [ty_go]; rewrite D; cbn [elem_children] in Hch.
    - (* composite *)
      destruct (match path_ident (t_path t), t_params t with
                | Some "Cow", p0 :: _ => tp_ty p0
                | _, _ => None
                end) as [inner|]; [apply Hrec|].
      destruct (Ht eq_refl) as [Hp Hu].
      apply GP_bind; [apply GP_lift; exact Hp|]. intros p.
      apply GP_bind; [apply GP_lift; exact Hu|]. intros u.
      apply GP_bind; [apply GP_fields; assumption|]. intros; apply GP_ret.
    - (* variant *)
      destruct (Ht eq_refl) as [Hp _].
      apply GP_bind; [apply GP_lift; exact Hp|]. intros p.
      apply GP_draw_choose. intros o Ho. destruct o as [v|]; [|apply GP_fail; discriminate].
      destruct (Hn v (Ho v eq_refl)) as [Hv Hfs].
      apply GP_bind; [apply GP_format_ident; exact Hv|]. intros vi.
      apply GP_bind; [apply GP_fields; assumption|]. intros; apply GP_ret.
    - (* sequence *)
      inversion Hch; subst.
      apply GP_resolve_type. intros te Hte.
      apply GP_bind; [apply IH; [assumption|lia]|]. intros a.
      apply GP_bind; [apply IH; [assumption|lia]|]. intros; apply GP_ret.
    - (* array *)
      inversion Hch; subst.
      apply GP_resolve_type. intros te Hte.
      apply GP_bind; [apply IH; [assumption|lia]|]. intros item.
      apply GP_bind; [|intros; apply GP_ret].
      eapply GP_is_copy; eauto. unfold copy_fuel.
      destruct (Hrank _ _ Hte) as [Hbe _]. lia.
    - (* tuple *)
      apply GP_bind; [apply GP_mmapM; intros; apply Hrec|]. intros; apply GP_ret.
    - (* primitive *) apply GP_prim.
    - (* compact *) apply Hrec.
    - (* bit sequence *) apply GP_ret.
  Qed.

  (** ** the number of ids that are not in progress bounds the nesting of [resolve] *)
  Definition all_ids : list N := map N.of_nat (seq 0 (List.length r)).

  Definition free_count (f : N -> bool) : nat :=
    List.length (filter (fun i => negb (f i)) all_ids).

  Lemma filter_length_lt {A} (f g : A -> bool) (l : list A) x :
    (forall y, g y = true -> f y = true) -> In x l -> f x = true -> g x = false ->
    (List.length (filter g l) < List.length (filter f l))%nat.
  Proof.
    intros Himp. induction l as [|y l IH]; intros Hin Hf Hg; [destruct Hin|].
    assert (Hle : forall l', (List.length (filter g l') <= List.length (filter f l'))%nat).
    { induction l' as [|z l' IH']; cbn; [lia|].
      destruct (g z) eqn:G; [rewrite (Himp z G); cbn; lia|].
      destruct (f z); cbn; lia. }
    cbn [filter]. destruct Hin as [->|Hin].
    - rewrite Hf, Hg. cbn. specialize (Hle l). lia.
    - specialize (IH Hin Hf Hg).
      destruct (g y) eqn:G; [rewrite (Himp y G); cbn; lia|].
      destruct (f y); cbn; lia.
  Qed.

  Lemma lookup_in_all_ids id t : lookup r id = Some t -> In id all_ids.
  Proof.
    unfold lookup. destruct (N.ltb id (N.of_nat (List.length r))) eqn:L; [|discriminate].
    intros _. apply N.ltb_lt in L. unfold all_ids. apply in_map_iff.
    exists (N.to_nat id). split; [apply N2Nat.id|]. apply in_seq. lia.
  Qed.

  Lemma GP_resolve_go : forall fo c0,
    (free_count (inprog c0) < fo)%nat -> forall id, GP c0 (resolve_go r s fo id).
  Proof.
    induction fo as [|fo IH]; intros c0 Hfree id st0 Hs; [lia|].
    cbn [resolve_go]. destruct (lookup r id) as [t|] eqn:L; [|cbn; discriminate].
    destruct (cache_get (fst st0) id) as [ce|] eqn:G.
    - destruct ce as [|v0]; [cbn; discriminate|].
      (* Computed: recomputed *)
      set (c1 := cache_set id CRecursive (fst st0)).
      assert (Hnot : inprog c0 id = false).
      { rewrite <- (Hs id). unfold inprog. rewrite G. reflexivity. }
      assert (H1 : forall i, inprog c1 i = (N.eqb i id || inprog c0 i)%bool).
      { intros i. unfold inprog, c1. rewrite cache_get_set. destruct (N.eqb i id); [reflexivity|].
        cbn. apply (Hs i). }
      assert (Hfree1 : (free_count (inprog c1) < fo)%nat).
      { apply Nat.lt_le_trans with (free_count (inprog c0)); [|lia].
        unfold free_count. apply filter_length_lt with (x := id).
        - intros y. rewrite H1. destruct (N.eqb y id); cbn; [discriminate|auto].
        - eapply lookup_in_all_ids; eauto.
        - rewrite Hnot. reflexivity.
        - rewrite H1, N.eqb_refl. reflexivity. }
      assert (Hty : GP c1 (ty_go r s (resolve_go r s fo) (inner_fuel r) id t)).
      { apply GP_ty_go; [intros j; apply IH; exact Hfree1|exact L|].
        unfold inner_fuel. destruct (Hrank id t L). lia. }
      specialize (Hty (c1, snd st0) (same_prog_refl c1)).
      destruct (ty_go r s (resolve_go r s fo) (inner_fuel r) id t (c1, snd st0)) as [[v s']|e|m];
        cbn in *; auto.
      intros i. unfold inprog. rewrite cache_get_set. destruct (N.eqb i id) eqn:E.
      + apply N.eqb_eq in E; subst i. symmetry; exact Hnot.
      + specialize (Hty i). unfold inprog in Hty. rewrite Hty.
        specialize (H1 i). unfold inprog in H1. rewrite H1, E. reflexivity.
    - (* absent *)
      set (c1 := cache_set id CRecursive (fst st0)).
      assert (Hnot : inprog c0 id = false).
      { rewrite <- (Hs id). unfold inprog. rewrite G. reflexivity. }
      assert (H1 : forall i, inprog c1 i = (N.eqb i id || inprog c0 i)%bool).
      { intros i. unfold inprog, c1. rewrite cache_get_set. destruct (N.eqb i id); [reflexivity|].
        cbn. apply (Hs i). }
      assert (Hfree1 : (free_count (inprog c1) < fo)%nat).
      { apply Nat.lt_le_trans with (free_count (inprog c0)); [|lia].
        unfold free_count. apply filter_length_lt with (x := id).
        - intros y. rewrite H1. destruct (N.eqb y id); cbn; [discriminate|auto].
        - eapply lookup_in_all_ids; eauto.
        - rewrite Hnot. reflexivity.
        - rewrite H1, N.eqb_refl. reflexivity. }
      assert (Hty : GP c1 (ty_go r s (resolve_go r s fo) (inner_fuel r) id t)).
      { apply GP_ty_go; [intros j; apply IH; exact Hfree1|exact L|].
        unfold inner_fuel. destruct (Hrank id t L). lia. }
      specialize (Hty (c1, snd st0) (same_prog_refl c1)).
      destruct (ty_go r s (resolve_go r s fo) (inner_fuel r) id t (c1, snd st0)) as [[v s']|e|m];
        cbn in *; auto.
      intros i. unfold inprog. rewrite cache_get_set. destruct (N.eqb i id) eqn:E.
      + apply N.eqb_eq in E; subst i. symmetry; exact Hnot.
      + specialize (Hty i). unfold inprog in Hty. rewrite Hty.
        specialize (H1 i). unfold inprog in H1. rewrite H1, E. reflexivity.
  Qed.

  Lemma filter_len_le {A} (f : A -> bool) l : (List.length (filter f l) <= List.length l)%nat.
  Proof. induction l as [|x l IH]; cbn; [lia|]. destruct (f x); cbn; lia. Qed.

  Lemma free_count_le f : (free_count f <= List.length r)%nat.
  Proof.
    unfold free_count. etransitivity; [apply filter_len_le|].
    unfold all_ids. rewrite map_length, seq_length. lia.
  Qed.

  (** Ok or a documented error; never a panic, never out of fuel *)
  Definition good_outcome {A} (x : xres A) : Prop :=
    match x with
    | XPanic _ => False
    | XErr XOutOfFuel => False
    | _ => True
    end.

  Theorem example_total id ws : good_outcome (example_rust r s id ws).
  Proof.
    unfold example_rust, example_run.
    assert (H : GP [] (resolve_go r s (outer_fuel r) id)).
    { apply GP_resolve_go. unfold outer_fuel. pose proof (free_count_le (inprog [])). lia. }
    specialize (H ([], ws) (same_prog_refl [])).
    destruct (resolve_go r s (outer_fuel r) id ([], ws)) as [[v s']|e|m]; cbn in *; auto.
    destruct e; auto.
  Qed.
End Total.

Lemma example_deterministic (r : registry) (s : settings) (id : N) (ws ws' : words) :
  ws = ws' -> example_rust r s id ws = example_rust r s id ws'.
Proof. intros ->; reflexivity. Qed.

Lemma resolve_in_progress_is_error (r : registry) (s : settings) (fo : nat) (id : N) (t : ty)
  (c : cache) (ws : words) :
  lookup r id = Some t -> cache_get c id = Some CRecursive ->
  resolve_go r s (S fo) id (c, ws) = XErr (XRecursive id).
Proof. intros L G. cbn [resolve_go fst]. rewrite L, G. reflexivity. Qed.

(** ** boolean forms of the hypotheses (evaluated on concrete registries) *)
Definition entries (r : registry) : list (nat * (N * ty)) := combine (seq 0 (List.length r)) r.

Lemma nth_error_entries {A} : forall (l : list A) off k e,
  nth_error l k = Some e -> In ((off + k)%nat, e) (combine (seq off (List.length l)) l).
Proof.
  induction l as [|x l IH]; intros off k e H; [destruct k; discriminate|].
  destruct k as [|k]; cbn in *.
  - inversion H; subst. left. f_equal. lia.
  - right. replace (off + S k)%nat with (S off + k)%nat by lia. apply IH; assumption.
Qed.

Lemma lookup_entry r id t :
  lookup r id = Some t -> exists i, In (N.to_nat id, (i, t)) (entries r) /\ In (i, t) r.
Proof.
  unfold lookup, resolve. destruct (N.ltb id _); [|discriminate].
  destruct (nth_error r (N.to_nat id)) as [[i t']|] eqn:E; [|discriminate].
  intros H; inversion H; subst. exists i. split.
  - apply (nth_error_entries r 0 (N.to_nat id)); assumption.
  - eapply nth_error_In; eauto.
Qed.

Definition rankedb (r : registry) (rk : list nat) : bool :=
  forallb (fun ie =>
             let i := fst ie in
             let t := snd (snd ie) in
             Nat.leb (nth i rk 0%nat) (List.length r) &&
             forallb (fun j => Nat.ltb (nth (N.to_nat j) rk 0%nat) (nth i rk 0%nat)) (elem_children (t_def t)))
          (entries r).

Lemma rankedb_ranked r rk : rankedb r rk = true -> ranked r (fun id => nth (N.to_nat id) rk 0%nat).
Proof.
  unfold rankedb. rewrite forallb_forall. intros H id t L.
  destruct (lookup_entry r id t L) as (i & Hin & _). specialize (H _ Hin). cbn in H.
  apply andb_prop in H as [H1 H2]. split; [apply Nat.leb_le; exact H1|].
  apply Forall_forall. intros j Hj. rewrite forallb_forall in H2. apply Nat.ltb_lt. apply H2; exact Hj.
Qed.

Definition fields_lexb (fs : list field) : bool :=
  forallb (fun f => match f_name f with Some n => ident_lexb n | None => true end) fs.

Definition names_lexb (r : registry) : bool :=
  forallb (fun e => match t_def (snd e) with
                    | TDComposite fs => fields_lexb fs
                    | TDVariant vs => forallb (fun v => ident_lexb (v_name v) && fields_lexb (v_fields v)) vs
                    | _ => true
                    end) r.

Lemma fields_lexb_lex fs : fields_lexb fs = true -> fields_lex fs.
Proof.
  unfold fields_lexb. rewrite forallb_forall. intros H f n Hin Hn. specialize (H f Hin).
  rewrite Hn in H. exact H.
Qed.

Lemma names_lexb_lex r : names_lexb r = true -> names_lex r.
Proof.
  unfold names_lexb. rewrite forallb_forall. intros H id t L.
  destruct (lookup_entry r id t L) as (i & _ & Hin). specialize (H _ Hin). cbn in H.
  destruct (t_def t); auto.
  - apply fields_lexb_lex; exact H.
  - rewrite forallb_forall in H. intros v Hv. specialize (H v Hv).
    apply andb_prop in H as [H1 H2]. split; [exact H1|apply fields_lexb_lex; exact H2].
Qed.

Definition tg_goodb {A} (x : result A) : bool :=
  match x with Panic _ => false | Err EOutOfFuel => false | _ => true end.

Lemma tg_goodb_good {A} (x : result A) : tg_goodb x = true -> tg_good x.
Proof. destruct x as [a|e|m]; cbn; auto; [destruct e; cbn; auto|]; discriminate. Qed.

Definition tg_totalb (r : registry) (s : settings) : bool :=
  forallb (fun ie =>
             let id := N.of_nat (fst ie) in
             let t := snd (snd ie) in
             negb (is_composite_or_variant (t_def t)) ||
             (tg_goodb (path_omit_generics r s id) && tg_goodb (has_unused_type_params r s t)))
          (entries r).

Lemma tg_totalb_total r s : tg_totalb r s = true -> tg_total r s.
Proof.
  unfold tg_totalb. rewrite forallb_forall. intros H id t L Hcv.
  destruct (lookup_entry r id t L) as (i & Hin & _). specialize (H _ Hin). cbn in H.
  rewrite N2Nat.id, Hcv in H. cbn in H. apply andb_prop in H as [H1 H2].
  split; apply tg_goodb_good; assumption.
Qed.

Theorem example_total_b r s rk :
  rankedb r rk = true -> names_lexb r = true -> tg_totalb r s = true ->
  forall id ws, good_outcome (example_rust r s id ws).
Proof.
  intros H1 H2 H3. apply example_total with (rk := fun id => nth (N.to_nat id) rk 0%nat).
  - apply rankedb_ranked; exact H1.
  - apply names_lexb_lex; exact H2.
  - apply tg_totalb_total; exact H3.
Qed.

(** ** the hypotheses are satisfiable: a registry with recursion through a
    Vec field, a generic struct with an unused parameter, an enum, an array of
    tuples and an explicit compact field *)
Definition demo_settings : settings :=
  mk_settings "types" true dreg_empty [] None None
              (Some [":"; ":"; "codec"; ":"; ":"; "Compact"]) true AStd.

Definition demo_registry : registry :=
  [ (0, mk_ty ["a"; "Tree"] [] (TDComposite [mk_field (Some "v") 2 (Some "u16") []; mk_field (Some "kids") 1 (Some "Vec<Tree>") []]) []);
    (1, mk_ty [] [] (TDSequence 0) []);
    (2, mk_ty [] [] (TDPrimitive PU16) []);
    (3, mk_ty ["a"; "G"] [mk_tparam "T" (Some 2)] (TDComposite []) []);
    (4, mk_ty ["a"; "E"] [] (TDVariant [mk_variant "A" [] 0 []; mk_variant "B" [mk_field None 6 None []] 1 []]) []);
    (5, mk_ty [] [] (TDTuple [2; 3]) []);
    (6, mk_ty [] [] (TDArray 3 5) []);
    (7, mk_ty [] [] (TDCompact 2) []);
    (8, mk_ty ["a"; "C"] [] (TDComposite [mk_field None 7 (Some "Compact<u16>") []]) []) ]%N.

Definition demo_ranks : list nat := [0; 1; 0; 0; 0; 1; 2; 1; 0]%nat.

Example demo_hypotheses :
  (rankedb demo_registry demo_ranks && names_lexb demo_registry && tg_totalb demo_registry demo_settings) = true.
Proof. vm_compute. reflexivity. Qed.

(** the theorem applies to it, and the outcomes are the expected ones *)
Example demo_recursive_is_error :
  example_rust demo_registry demo_settings 0 [7; 8; 9]%N = XErr (XRecursive 1).
Proof. vm_compute. reflexivity. Qed.

Example demo_marker :
  example_rust demo_registry demo_settings 3 []%N =
  XOk ["types"; ":"; ":"; "a"; ":"; ":"; "G"; "("; ":"; ":"; "core"; ":"; ":"; "marker"; ":"; ":"; "PhantomData"; ")"]%string.
Proof. vm_compute. reflexivity. Qed.

Lemma hypotheses_satisfiable :
  exists (r : registry) (s : settings) (rk : list nat),
    rankedb r rk = true /\ names_lexb r = true /\ tg_totalb r s = true /\
    (exists id ws e, example_rust r s id ws = XErr e) /\
    (exists id ws t, example_rust r s id ws = XOk t).
Proof.
  exists demo_registry, demo_settings, demo_ranks.
  pose proof demo_hypotheses as H.
  apply andb_prop in H as [H H3]. apply andb_prop in H as [H1 H2].
  repeat split; auto.
  - exists 0%N, [7; 8; 9]%N, (XRecursive 1). exact demo_recursive_is_error.
  - eexists 3%N, []%N, _. exact demo_marker.
Qed.
