(** Proofs about the model of Rust value examples (C14).

    1. [example_total]: the example generator returns Ok or a documented
       error -- never a panic, never fuel exhaustion -- on registries whose
       element graph (sequence / array / tuple / compact edges) is ranked and
       whose field / variant names are identifiers, PROVIDED the two calls into
       the type generator ([resolve_type_path] + printing, [create_type_ir])
       are total on the registry (hypothesis [tg_total], a decidable statement
       about the typegen model that is evaluated on every generated case).
       This is the termination argument of rust_value.rs: a nested
       [Transformer::resolve] marks a new id (depth <= #entries), and the
       sequence / array arms, which bypass the marker, descend along ranked
       edges only.
    2. lemmas relating model output to the independent reader of
       [Corr/RunC14.v]. *)
From Coq Require Import List NArith ZArith Bool String Ascii Lia.
From V Require Import Base.Util Base.Strings Base.Result Model.Registry Model.Settings Model.Subst
  Model.TypePath Model.Derives Model.Generate Model.RngWords Model.ExampleRust.
Import ListNotations.
Open Scope list_scope.

(** ** range of [slice.choose] *)
Lemma sample_loop_lt range zone : (0 < range)%N -> forall ws hi rest,
  sample_loop range zone ws = Drawn hi rest -> (hi < range)%N.
Proof.
  intros Hr. induction ws as [|w ws IH]; cbn [sample_loop]; intros hi rest H; [discriminate|].
  destruct (N.leb _ zone).
  - inversion H; subst. apply N.div_lt_upper_bound; [discriminate|].
    apply (proj1 (N.mul_lt_mono_pos_r range (w mod two32) two32 Hr)).
    apply N.mod_lt. discriminate.
  - eapply IH; eauto.
Qed.

Lemma choose_in {A} (l : list A) ws a rest : choose l ws = Drawn (Some a) rest -> In a l.
Proof.
  unfold choose. destruct l as [|x l]; [cbn; discriminate|].
  unfold rng_bind. destruct (gen_index _ ws) as [i ws'|]; [|discriminate].
  unfold rng_ret. intros H. inversion H. eapply nth_error_In; eauto.
Qed.

Lemma choose_some {A} (l : list A) ws o rest :
  l <> [] -> (N.of_nat (List.length l) < two32)%N -> choose l ws = Drawn o rest -> o <> None.
Proof.
  intros Hne Hlt. unfold choose. destruct l as [|x l]; [congruence|].
  unfold rng_bind, gen_index, sample_u32. rewrite N.mod_small by exact Hlt.
  destruct (N.eqb (N.of_nat (List.length (x :: l))) 0) eqn:E.
  - apply N.eqb_eq in E. cbn [List.length] in E. lia.
  - destruct (sample_loop _ _ ws) as [i ws'|] eqn:S; [|discriminate].
    unfold rng_ret. intros H. inversion H; subst.
    apply sample_loop_lt in S; [|cbn [List.length]; lia].
    apply nth_error_Some. lia.
Qed.

(** ** cache facts *)
Definition inprog (c : cache) (id : N) : bool :=
  match cache_get c id with Some CRecursive => true | _ => false end.

Lemma cache_get_set c id e i :
  cache_get (cache_set id e c) i = if N.eqb i id then Some e else cache_get c i.
Proof.
  induction c as [|[k e'] c IH]; cbn [cache_set cache_get].
  - rewrite N.eqb_sym. reflexivity.
  - destruct (N.eqb k id) eqn:K; cbn [cache_get].
    + apply N.eqb_eq in K; subst k. rewrite (N.eqb_sym i id).
      destruct (N.eqb id i); reflexivity.
    + destruct (N.eqb k i) eqn:Ki.
      * apply N.eqb_eq in Ki; subst k. rewrite K. reflexivity.
      * exact IH.
Qed.

Definition same_prog (c0 c : cache) : Prop := forall i, inprog c i = inprog c0 i.

Lemma same_prog_refl c : same_prog c c. Proof. intros i; reflexivity. Qed.

(** ** the invariant-preserving, non-crashing computations *)
Definition post {A} (c0 : cache) (x : xres (A * st)) : Prop :=
  match x with
  | XOk (_, s') => same_prog c0 (fst s')
  | XErr e => e <> XOutOfFuel
  | XPanic _ => False
  end.

Definition GP {A} (c0 : cache) (m : M A) : Prop :=
  forall s, same_prog c0 (fst s) -> post c0 (m s).

Lemma GP_ret {A} c0 (a : A) : GP c0 (mret a).
Proof. intros s H; exact H. Qed.

Lemma GP_fail {A} c0 e : e <> XOutOfFuel -> GP c0 (@mfail A e).
Proof. intros He s H; exact He. Qed.

Lemma GP_bind {A B} c0 (m : M A) (f : A -> M B) :
  GP c0 m -> (forall a, GP c0 (f a)) -> GP c0 (mbind m f).
Proof.
  intros Hm Hf s Hs. unfold mbind. specialize (Hm s Hs).
  destruct (m s) as [[a s']|e|msg]; cbn in *; auto. apply Hf; auto.
Qed.

Lemma GP_mdraw {A} c0 (d : rng A) : GP c0 (mdraw d).
Proof.
  intros s Hs. unfold mdraw. destruct (d (snd s)); cbn; [exact Hs|discriminate].
Qed.

Lemma GP_draw_choose {A B} c0 (l : list A) (f : option A -> M B) :
  (forall o, (forall a, o = Some a -> In a l) -> GP c0 (f o)) ->
  GP c0 (mbind (mdraw (choose l)) f).
Proof.
  intros Hf s Hs. unfold mbind, mdraw. destruct (choose l (snd s)) as [o rest|] eqn:E; cbn.
  - apply Hf; [|exact Hs]. intros a ->. eapply choose_in; eauto.
  - discriminate.
Qed.

Lemma GP_choose_unwrap {A} c0 (l : list A) :
  l <> [] -> (N.of_nat (List.length l) < two32)%N -> GP c0 (choose_unwrap l).
Proof.
  intros Hne Hlt s Hs. unfold choose_unwrap, mbind, mdraw.
  destruct (choose l (snd s)) as [o rest|] eqn:E; cbn; [|discriminate].
  destruct o as [a|]; cbn; [exact Hs|]. eapply choose_some in E; eauto.
Qed.

Definition tg_good {A} (x : result A) : Prop :=
  match x with Panic _ => False | Err EOutOfFuel => False | _ => True end.

Lemma GP_lift {A} c0 (x : result A) : tg_good x -> GP c0 (lift x).
Proof.
  intros Hx s Hs. unfold lift. destruct x as [a|e|m]; cbn in *; auto.
  destruct e; cbn; try discriminate. destruct Hx.
Qed.

Lemma GP_mmapM {A B} c0 (f : A -> M B) (l : list A) :
  (forall x, In x l -> GP c0 (f x)) -> GP c0 (mmapM f l).
Proof.
  induction l as [|x l IH]; intros H; cbn [mmapM]; [apply GP_ret|].
  apply GP_bind; [apply H; left; reflexivity|]. intros y.
  apply GP_bind; [apply IH; intros; apply H; right; assumption|]. intros; apply GP_ret.
Qed.

Lemma GP_format_ident c0 x : ident_lexb x = true -> GP c0 (format_ident x).
Proof. intros H. unfold format_ident. rewrite H. apply GP_ret. Qed.

Lemma GP_prim c0 p : GP c0 (prim_example p).
Proof.
  destruct p; cbn [prim_example];
    try (apply GP_bind; [apply GP_mdraw|intros; apply GP_ret]);
    (apply GP_bind; [apply GP_choose_unwrap; [discriminate|reflexivity]|intros; apply GP_ret]).
Qed.

(** ** hypotheses of the totality theorem *)

(** sequence / array / tuple / compact edges: what [ty_example] and
    [type_def_is_copy] follow without the in-progress marker *)
Definition elem_children (d : typedef) : list N :=
  match d with
  | TDSequence e | TDArray _ e | TDCompact e => [e]
  | TDTuple ts => ts
  | _ => []
  end.

Section Total.
  Variable r : registry.
  Variable s : settings.

  (** a rank function: strictly decreasing along element edges, bounded by the
      number of entries (every finite acyclic graph has one: longest path) *)
  Definition ranked (rk : N -> nat) : Prop :=
    forall id t, lookup r id = Some t ->
      (rk id <= List.length r)%nat /\ Forall (fun j => (rk j < rk id)%nat) (elem_children (t_def t)).

  (** field and variant names are lexically identifiers ([format_ident!] does not panic) *)
  Definition fields_lex (fs : list field) : Prop :=
    forall f n, In f fs -> f_name f = Some n -> ident_lexb n = true.
  Definition names_lex : Prop :=
    forall id t, lookup r id = Some t ->
      match t_def t with
      | TDComposite fs => fields_lex fs
      | TDVariant vs => forall v, In v vs -> ident_lexb (v_name v) = true /\ fields_lex (v_fields v)
      | _ => True
      end.

  (** the type generator is total on the struct / enum entries: neither the
      path (resolve + print) nor the IR construction panics or diverges *)
  Definition tg_total : Prop :=
    forall id t, lookup r id = Some t -> is_composite_or_variant (t_def t) = true ->
      tg_good (path_omit_generics r s id) /\ tg_good (has_unused_type_params r s t).

  Variable rk : N -> nat.
  Hypothesis Hrank : ranked rk.
  Hypothesis Hnames : names_lex.
  Hypothesis Htg : tg_total.

  Lemma GP_resolve_type {B} c0 e (f : ty -> M B) :
    (forall te, lookup r e = Some te -> GP c0 (f te)) -> GP c0 (mbind (resolve_type_m r e) f).
  Proof.
    intros Hf st0 Hs. unfold mbind, resolve_type_m.
    destruct (lookup r e) as [te|] eqn:E; cbn.
    - apply Hf; auto.
    - discriminate.
  Qed.

  Lemma GP_is_copy c0 : forall fuel id t,
    lookup r id = Some t -> (rk id < fuel)%nat -> GP c0 (is_copy r fuel (t_def t)).
  Proof.
    induction fuel as [|fuel IH]; intros id t Hl Hlt; [lia|].
    destruct (Hrank id t Hl) as [_ Hch].
    destruct (t_def t) eqn:D; cbn [is_copy]; try apply GP_ret; cbn [elem_children] in Hch.
    - (* array *)
      apply GP_resolve_type. intros te Hte. destruct (N.leb len 32); [|apply GP_ret].
      inversion Hch; subst. eapply IH; eauto. lia.
    - (* tuple *)
      clear D. induction ts as [|i ts IHts]; [apply GP_ret|].
      inversion Hch; subst.
      apply GP_resolve_type. intros te Hte.
      apply GP_bind; [eapply IH; eauto; lia|].
      intros b. destruct b; [apply IHts; assumption|apply GP_ret].
    - (* compact *)
      apply GP_resolve_type. intros te Hte. inversion Hch; subst. eapply IH; eauto. lia.
  Qed.

  Lemma all_named_some fs f : all_named fs = true -> In f fs -> exists n, f_name f = Some n.
  Proof.
    unfold all_named. rewrite forallb_forall. intros H Hin. specialize (H f Hin).
    destruct (f_name f); [eauto|discriminate].
  Qed.

  Lemma GP_fields c0 (rec : N -> M tokens) fs b :
    (forall j, GP c0 (rec j)) -> fields_lex fs -> GP c0 (fields_example rec fs b).
  Proof.
    intros Hrec Hlex. unfold fields_example.
    destruct (all_named fs) eqn:An; destruct (all_unnamed fs) eqn:Au.
    - apply GP_ret.
    - apply GP_bind; [|intros; apply GP_ret]. apply GP_mmapM. intros f Hf.
      unfold named_field. destruct (all_named_some fs f An Hf) as [n Hn]. rewrite Hn.
      apply GP_bind; [apply GP_format_ident; eapply Hlex; eauto|]. intros i.
      apply GP_bind; [apply Hrec|]. intros; apply GP_ret.
    - apply GP_bind; [|intros; apply GP_ret]. apply GP_mmapM. intros f Hf.
      unfold unnamed_field. apply GP_bind; [apply Hrec|]. intros; apply GP_ret.
    - apply GP_fail. discriminate.
  Qed.

  (** [ty_example] under an invariant-preserving [resolve] *)
  Lemma GP_ty_go c0 (rec : N -> M tokens) :
    (forall j, GP c0 (rec j)) ->
    forall fi id t, lookup r id = Some t -> (rk id < fi)%nat -> GP c0 (ty_go r s rec fi id t).
  Proof.
    intros Hrec. induction fi as [|fi IH]; intros id t Hl Hlt; [lia|].
    destruct (Hrank id t Hl) as [Hb Hch].
    pose proof (Hnames id t Hl) as Hn. pose proof (Htg id t Hl) as Ht.
    destruct (t_def t) eqn:D; cbn [ty_go]; rewrite D; cbn [elem_children] in Hch.
    - (* composite *)
      destruct (Ht eq_refl) as [Hp Hu].
      apply GP_bind; [apply GP_lift; exact Hp|]. intros p.
      apply GP_bind; [apply GP_lift; exact Hu|]. intros u.
      apply GP_bind; [apply GP_fields; assumption|]. intros; apply GP_ret.
    - (* variant *)
      destruct (Ht eq_refl) as [Hp _].
      apply GP_bind; [apply GP_lift; exact Hp|]. intros p.
      apply GP_draw_choose. intros o Ho. destruct o as [v|]; [|apply GP_fail; discriminate].
      destruct (Hn v (Ho v eq_refl)) as [Hv Hfs].
      apply GP_bind; [apply GP_format_ident; exact Hv|]. intros vi.
      apply GP_bind; [apply GP_fields; assumption|]. intros; apply GP_ret.
    - (* sequence *)
      inversion Hch; subst.
      apply GP_resolve_type. intros te Hte.
      apply GP_bind; [apply IH; [assumption|lia]|]. intros a.
      apply GP_bind; [apply IH; [assumption|lia]|]. intros; apply GP_ret.
    - (* array *)
      inversion Hch; subst.
      apply GP_resolve_type. intros te Hte.
      apply GP_bind; [apply IH; [assumption|lia]|]. intros item.
      apply GP_bind; [|intros; apply GP_ret].
      eapply GP_is_copy; eauto. unfold copy_fuel.
      destruct (Hrank _ _ Hte) as [Hbe _]. lia.
    - (* tuple *)
      apply GP_bind; [apply GP_mmapM; intros; apply Hrec|]. intros; apply GP_ret.
    - (* primitive *) apply GP_prim.
    - (* compact *) apply Hrec.
    - (* bit sequence *) apply GP_ret.
  Qed.

  (** ** the number of ids that are not in progress bounds the nesting of [resolve] *)
  Definition all_ids : list N := map N.of_nat (seq 0 (List.length r)).

  Definition free_count (f : N -> bool) : nat :=
    List.length (filter (fun i => negb (f i)) all_ids).

  Lemma filter_length_lt {A} (f g : A -> bool) (l : list A) x :
    (forall y, g y = true -> f y = true) -> In x l -> f x = true -> g x = false ->
    (List.length (filter g l) < List.length (filter f l))%nat.
  Proof.
    intros Himp. induction l as [|y l IH]; intros Hin Hf Hg; [destruct Hin|].
    assert (Hle : forall l', (List.length (filter g l') <= List.length (filter f l'))%nat).
    { induction l' as [|z l' IH']; cbn; [lia|].
      destruct (g z) eqn:G; [rewrite (Himp z G); cbn; lia|].
      destruct (f z); cbn; lia. }
    cbn [filter]. destruct Hin as [->|Hin].
    - rewrite Hf, Hg. cbn. specialize (Hle l). lia.
    - specialize (IH Hin Hf Hg).
      destruct (g y) eqn:G; [rewrite (Himp y G); cbn; lia|].
      destruct (f y); cbn; lia.
  Qed.

  Lemma lookup_in_all_ids id t : lookup r id = Some t -> In id all_ids.
  Proof.
    unfold lookup. destruct (N.ltb id (N.of_nat (List.length r))) eqn:L; [|discriminate].
    intros _. apply N.ltb_lt in L. unfold all_ids. apply in_map_iff.
    exists (N.to_nat id). split; [apply N2Nat.id|]. apply in_seq. lia.
  Qed.

  Lemma GP_resolve_go : forall fo c0,
    (free_count (inprog c0) < fo)%nat -> forall id, GP c0 (resolve_go r s fo id).
  Proof.
    induction fo as [|fo IH]; intros c0 Hfree id st0 Hs; [lia|].
    cbn [resolve_go]. destruct (lookup r id) as [t|] eqn:L; [|cbn; discriminate].
    destruct (cache_get (fst st0) id) as [ce|] eqn:G.
    - destruct ce as [|v0]; [cbn; discriminate|].
      (* Computed: recomputed *)
      set (c1 := cache_set id CRecursive (fst st0)).
      assert (Hnot : inprog c0 id = false).
      { rewrite <- (Hs id). unfold inprog. rewrite G. reflexivity. }
      assert (H1 : forall i, inprog c1 i = (N.eqb i id || inprog c0 i)%bool).
      { intros i. unfold inprog, c1. rewrite cache_get_set. destruct (N.eqb i id); [reflexivity|].
        cbn. apply (Hs i). }
      assert (Hfree1 : (free_count (inprog c1) < fo)%nat).
      { apply Nat.lt_le_trans with (free_count (inprog c0)); [|lia].
        unfold free_count. apply filter_length_lt with (x := id).
        - intros y. rewrite H1. destruct (N.eqb y id); cbn; [discriminate|auto].
        - eapply lookup_in_all_ids; eauto.
        - rewrite Hnot. reflexivity.
        - rewrite H1, N.eqb_refl. reflexivity. }
      assert (Hty : GP c1 (ty_go r s (resolve_go r s fo) (inner_fuel r) id t)).
      { apply GP_ty_go; [intros j; apply IH; exact Hfree1|exact L|].
        unfold inner_fuel. destruct (Hrank id t L). lia. }
      specialize (Hty (c1, snd st0) (same_prog_refl c1)).
      destruct (ty_go r s (resolve_go r s fo) (inner_fuel r) id t (c1, snd st0)) as [[v s']|e|m];
        cbn in *; auto.
      intros i. unfold inprog. rewrite cache_get_set. destruct (N.eqb i id) eqn:E.
      + apply N.eqb_eq in E; subst i. symmetry; exact Hnot.
      + specialize (Hty i). unfold inprog in Hty. rewrite Hty.
        specialize (H1 i). unfold inprog in H1. rewrite H1, E. reflexivity.
    - (* absent *)
      set (c1 := cache_set id CRecursive (fst st0)).
      assert (Hnot : inprog c0 id = false).
      { rewrite <- (Hs id). unfold inprog. rewrite G. reflexivity. }
      assert (H1 : forall i, inprog c1 i = (N.eqb i id || inprog c0 i)%bool).
      { intros i. unfold inprog, c1. rewrite cache_get_set. destruct (N.eqb i id); [reflexivity|].
        cbn. apply (Hs i). }
      assert (Hfree1 : (free_count (inprog c1) < fo)%nat).
      { apply Nat.lt_le_trans with (free_count (inprog c0)); [|lia].
        unfold free_count. apply filter_length_lt with (x := id).
        - intros y. rewrite H1. destruct (N.eqb y id); cbn; [discriminate|auto].
        - eapply lookup_in_all_ids; eauto.
        - rewrite Hnot. reflexivity.
        - rewrite H1, N.eqb_refl. reflexivity. }
      assert (Hty : GP c1 (ty_go r s (resolve_go r s fo) (inner_fuel r) id t)).
      { apply GP_ty_go; [intros j; apply IH; exact Hfree1|exact L|].
        unfold inner_fuel. destruct (Hrank id t L). lia. }
      specialize (Hty (c1, snd st0) (same_prog_refl c1)).
      destruct (ty_go r s (resolve_go r s fo) (inner_fuel r) id t (c1, snd st0)) as [[v s']|e|m];
        cbn in *; auto.
      intros i. unfold inprog. rewrite cache_get_set. destruct (N.eqb i id) eqn:E.
      + apply N.eqb_eq in E; subst i. symmetry; exact Hnot.
      + specialize (Hty i). unfold inprog in Hty. rewrite Hty.
        specialize (H1 i). unfold inprog in H1. rewrite H1, E. reflexivity.
  Qed.

  Lemma filter_len_le {A} (f : A -> bool) l : (List.length (filter f l) <= List.length l)%nat.
  Proof. induction l as [|x l IH]; cbn; [lia|]. destruct (f x); cbn; lia. Qed.

  Lemma free_count_le f : (free_count f <= List.length r)%nat.
  Proof.
    unfold free_count. etransitivity; [apply filter_len_le|].
    unfold all_ids. rewrite map_length, seq_length. lia.
  Qed.

  (** Ok or a documented error; never a panic, never out of fuel *)
  Definition good_outcome {A} (x : xres A) : Prop :=
    match x with
    | XPanic _ => False
    | XErr XOutOfFuel => False
    | _ => True
    end.

  Theorem example_total id ws : good_outcome (example_rust r s id ws).
  Proof.
    unfold example_rust, example_run.
    assert (H : GP [] (resolve_go r s (outer_fuel r) id)).
    { apply GP_resolve_go. unfold outer_fuel. pose proof (free_count_le (inprog [])). lia. }
    specialize (H ([], ws) (same_prog_refl [])).
    destruct (resolve_go r s (outer_fuel r) id ([], ws)) as [[v s']|e|m]; cbn in *; auto.
    destruct e; auto.
  Qed.
End Total.

Lemma example_deterministic (r : registry) (s : settings) (id : N) (ws ws' : words) :
  ws = ws' -> example_rust r s id ws = example_rust r s id ws'.
Proof. intros ->; reflexivity. Qed.

Lemma resolve_in_progress_is_error (r : registry) (s : settings) (fo : nat) (id : N) (t : ty)
  (c : cache) (ws : words) :
  lookup r id = Some t -> cache_get c id = Some CRecursive ->
  resolve_go r s (S fo) id (c, ws) = XErr (XRecursive id).
Proof. intros L G. cbn [resolve_go fst]. rewrite L, G. reflexivity. Qed.
