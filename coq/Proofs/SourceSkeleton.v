(** C05: the WHOLE erased IR of an instantiation is determined by the source definition
    ([erase_ids ir = ir_of_source sd]): names, variant indices, unused parameters in addition to
    the parameter positions and fields of Proofs/SourceRoundTrip.v; consequences for
    [skeleton_consistent]. *)
From Coq Require Import List NArith String Bool Lia Arith FinFun.
From V Require Import Base.Util Base.Strings Base.Result Model.Registry Model.Settings Model.Subst
  Model.TypePath Model.Derives Model.Generate Model.WellFormed Model.Shape Model.Program Model.ProgramSkel
  Checkers.Parse Checkers.Sem
  Proofs.GenProofs Proofs.FidelityBase Proofs.ResolveTotal Proofs.GenTotal Proofs.ClosedProofs
  Proofs.SourceRoundTrip Proofs.FidelityGen.
Import ListNotations.
Open Scope string_scope. Open Scope list_scope.

(** ** generic list facts *)
Lemma map_eq_Forall2 {A B C} (f : A -> C) (g : B -> C) la lb :
  Forall2 (fun a b => f a = g b) la lb -> map f la = map g lb.
Proof. induction 1 as [|a b la lb H _ IH]; cbn [map]; [reflexivity|]. rewrite H, IH. reflexivity. Qed.

Lemma Forall2_conj {A B} (R1 R2 : A -> B -> Prop) la lb :
  Forall2 R1 la lb -> Forall2 R2 la lb -> Forall2 (fun a b => R1 a b /\ R2 a b) la lb.
Proof.
  intros H1. induction H1 as [|a b la lb H _ IH]; intros H2; inversion H2; subst; constructor; auto.
Qed.

Lemma Forall2_map_r {A B C} (g : B -> C) (R : A -> C -> Prop) la lb :
  Forall2 R la (map g lb) -> Forall2 (fun a b => R a (g b)) la lb.
Proof.
  revert la. induction lb as [|y lb IH]; intros la H; cbn [map] in H; inversion H; subst; constructor; auto.
Qed.

Lemma Forall2_impl {A B} (R R' : A -> B -> Prop) la lb :
  (forall a b, R a b -> R' a b) -> Forall2 R la lb -> Forall2 R' la lb.
Proof. intros H. induction 1; constructor; auto. Qed.

Lemma flat_map_flat_map {A B C} (f : A -> list B) (g : B -> list C) l :
  flat_map g (flat_map f l) = flat_map (fun a => flat_map g (f a)) l.
Proof. induction l as [|a l IH]; [reflexivity|]. cbn [flat_map]. rewrite flat_map_app, IH. reflexivity. Qed.

Lemma flat_map_map' {A B C} (f : A -> B) (g : B -> list C) l :
  flat_map g (map f l) = flat_map (fun a => g (f a)) l.
Proof. induction l as [|a l IH]; [reflexivity|]. cbn [map flat_map]. rewrite IH. reflexivity. Qed.

Lemma map_flat_map_In {A C D} (h : C -> D) (F G : A -> list C) l :
  (forall x, In x l -> map h (F x) = map h (G x)) -> map h (flat_map F l) = map h (flat_map G l).
Proof.
  induction l as [|a l IH]; intros H; [reflexivity|]. cbn [flat_map]. rewrite !map_app.
  rewrite (H a (or_introl eq_refl)), IH; [reflexivity|]. intros x Hx. apply H. right; exact Hx.
Qed.

Lemma map_flat_map_In2 {A C C' D} (h : C -> D) (k : C' -> D) (F : A -> list C) (G : A -> list C') l :
  (forall x, In x l -> map h (F x) = map k (G x)) -> map h (flat_map F l) = map k (flat_map G l).
Proof.
  induction l as [|a l IH]; intros H; [reflexivity|]. cbn [flat_map]. rewrite !map_app.
  rewrite (H a (or_introl eq_refl)), IH; [reflexivity|]. intros x Hx. apply H. right; exact Hx.
Qed.

Lemma map_flat_map_Forall2 {A B C C' D} (h : C -> D) (k : C' -> D) (F : B -> list C) (G : A -> list C') la lb :
  Forall2 (fun a b => map h (F b) = map k (G a)) la lb -> map h (flat_map F lb) = map k (flat_map G la).
Proof.
  induction 1 as [|a b la lb H _ IH]; [reflexivity|]. cbn [flat_map]. rewrite !map_app, H, IH. reflexivity.
Qed.

Lemma NoDup_map_inj {A B} (f : A -> B) l a b :
  NoDup (map f l) -> In a l -> In b l -> f a = f b -> a = b.
Proof.
  induction l as [|x l IH]; intros Hn Ha Hb E; [destruct Ha|]. cbn [map] in Hn. inversion Hn as [|y l' Hx Hn']; subst.
  destruct Ha as [->|Ha], Hb as [->|Hb].
  - reflexivity.
  - exfalso. apply Hx. rewrite E. apply in_map. exact Hb.
  - exfalso. apply Hx. rewrite <- E. apply in_map. exact Ha.
  - apply IH; assumption.
Qed.

(** ** parameters occurring in a resolved path are parent parameters *)
Lemma pp_TPath toks ps : parent_params (TPath toks ps) = flat_map parent_params ps.
Proof. cbn [parent_params]. induction ps as [|x ps IH]; [reflexivity|]. cbn [flat_map]. rewrite <- IH. reflexivity. Qed.
Lemma pp_TTuple ps : parent_params (TTuple ps) = flat_map parent_params ps.
Proof. cbn [parent_params]. induction ps as [|x ps IH]; [reflexivity|]. cbn [flat_map]. rewrite <- IH. reflexivity. Qed.

Lemma tpmws_params s p ps t : type_path_maybe_with_substitutes s p ps = Ok t ->
  exists toks, t = TPath toks ps \/ t = TPath toks [].
Proof.
  unfold type_path_maybe_with_substitutes, for_path_with_params. intros H.
  destruct (subs_get (s_subs s) p) as [sub|].
  - destruct (su_map sub) as [|m].
    + inversion H. eauto.
    + destruct (flat_map _ m) in H.
      * inversion H; eauto.
      * apply bind_ok in H as (repl & _ & H). inversion H; eauto.
  - apply bind_ok in H as (q & _ & H). inversion H. eauto.
Qed.

Lemma resolve_params_in r s parents : forall fuel id isf orig t,
  resolve_rec r s fuel id isf parents orig = Ok t -> forall q, In q (parent_params t) -> In q parents.
Proof.
  induction fuel as [|fuel IH]; intros id isf orig t H q Hq; [discriminate|].
  rewrite resolve_rec_S in H.
  destruct (find_parent parents id orig) as [p|] eqn:Ef.
  { inversion H; subst t. cbn [parent_params] in Hq. destruct Hq as [<-|[]].
    unfold find_parent in Ef. apply find_some in Ef as [Hin _]. exact Hin. }
  apply bind_ok in H as (t0 & _ & H). apply bind_ok in H as (t1 & _ & H). apply bind_ok in H as (ps & Hps & H).
  assert (Hall : forall l ys, mapM (fun i => resolve_rec r s fuel i false parents None) l = Ok ys ->
                 forall q, In q (flat_map parent_params ys) -> In q parents).
  { intros l ys Hm q' Hq'. apply mapM_ok_Forall2 in Hm. apply in_flat_map in Hq' as (y & Hy & Hq').
    clear - IH Hm Hy Hq'. induction Hm as [|x y' l ys Hxy Hm IHm]; [destruct Hy|].
    destruct Hy as [->|Hy]; [exact (IH _ _ _ _ Hxy _ Hq')|apply IHm; exact Hy]. }
  unfold resolve_def in H. destruct (t_def t1) as [fs|vs|e|len e|es|p|e|store order].
  - destruct (tpmws_params _ _ _ _ H) as (toks & [->| ->]); rewrite pp_TPath in Hq; [exact (Hall _ _ Hps _ Hq)|destruct Hq].
  - destruct (tpmws_params _ _ _ _ H) as (toks & [->| ->]); rewrite pp_TPath in Hq; [exact (Hall _ _ Hps _ Hq)|destruct Hq].
  - apply bind_ok in H as (i & Hi & H). inversion H; subst t. cbn [parent_params] in Hq. exact (IH _ _ _ _ Hi _ Hq).
  - apply bind_ok in H as (i & Hi & H). inversion H; subst t. cbn [parent_params] in Hq. exact (IH _ _ _ _ Hi _ Hq).
  - apply bind_ok in H as (l & Hl & H). inversion H; subst t. rewrite pp_TTuple in Hq. exact (Hall _ _ Hl _ Hq).
  - inversion H; subst t. destruct Hq.
  - apply bind_ok in H as (i & Hi & H). destruct (s_compact s); [|discriminate]. inversion H; subst t.
    cbn [parent_params] in Hq. exact (IH _ _ _ _ Hi _ Hq).
  - destruct (s_bits s); [|discriminate]. apply bind_ok in H as (o & Ho & H). apply bind_ok in H as (st & Hst & H).
    inversion H; subst t. cbn [parent_params] in Hq. apply in_app_or in Hq as [Hq|Hq]; [exact (IH _ _ _ _ Ho _ Hq)|exact (IH _ _ _ _ Hst _ Hq)].
Qed.

Lemma pp_erase t : map tpi_idx (parent_params (erase_tpath t)) = map tpi_idx (parent_params t).
Proof.
  induction t as [p|ptoks params IH|o IH|len o IH|els IH|p|i f cp IH|o st b IHo IHs] using tpath_ind';
    cbn [erase_tpath].
  - reflexivity.
  - rewrite !pp_TPath, flat_map_map'. apply map_flat_map_In. intros x Hx. rewrite Forall_forall in IH. auto.
  - exact IH.
  - exact IH.
  - rewrite !pp_TTuple, flat_map_map'. apply map_flat_map_In. intros x Hx. rewrite Forall_forall in IH. auto.
  - reflexivity.
  - exact IH.
  - cbn [parent_params]. rewrite !map_app, IHo, IHs. reflexivity.
Qed.

(** ** the unused set of an IR as one filter *)
Definition pp_fi (fi : field_ir) : list tparam_ir := parent_params (fi_path fi).

Lemma mark_used_nil u : mark_used u [] = u.
Proof. unfold mark_used. induction u as [|p u IH]; [reflexivity|]. cbn [filter existsb negb]. f_equal. exact IH. Qed.

Lemma mark_used_app u a b : mark_used (mark_used u a) b = mark_used u (a ++ b).
Proof.
  unfold mark_used. induction u as [|p u IH]; [reflexivity|]. cbn [filter]. rewrite existsb_app.
  destruct (existsb (tpi_eqb p) a); cbn [negb orb].
  - exact IH.
  - cbn [filter]. destruct (existsb (tpi_eqb p) b); cbn [negb]; rewrite IH; reflexivity.
Qed.

Lemma cck_unused_eq r s fl P u k u' :
  create_composite_ir_kind r s fl P u = Ok (k, u') -> u' = mark_used u (flat_map pp_fi (ckind_fields k)).
Proof.
  unfold create_composite_ir_kind. intros H.
  destruct fl as [|f0 fl0]; [inversion H; subst; cbn [ckind_fields flat_map]; rewrite mark_used_nil; reflexivity|].
  destruct (negb (all_named (f0 :: fl0) || all_unnamed (f0 :: fl0))); [discriminate|].
  destruct (all_named (f0 :: fl0)).
  - apply bind_ok in H as (l & _ & H). inversion H; subst. cbn [ckind_fields]. rewrite flat_map_map'. reflexivity.
  - apply bind_ok in H as (l & _ & H). inversion H; subst. reflexivity.
Qed.

Lemma variants_unused_eq r s P : forall vl u l u',
  variants_ir r s P vl u = Ok (l, u') ->
  u' = mark_used u (flat_map pp_fi (flat_map (fun x : N * composite_ir => ckind_fields (ci_kind (snd x))) l)).
Proof.
  induction vl as [|v vl IH]; intros u l u' H.
  - cbn in H. inversion H; subst. cbn [flat_map]. rewrite mark_used_nil. reflexivity.
  - rewrite variants_ir_cons in H. apply bind_ok in H as (vn & _ & H).
    apply bind_ok in H as ([k u1] & Hk & H). apply bind_ok in H as ([l' u2] & Hrest & H).
    cbn [fst snd] in *. inversion H; subst. cbn [flat_map snd ci_kind]. rewrite flat_map_app, <- mark_used_app.
    rewrite <- (cck_unused_eq _ _ _ _ _ _ _ Hk). apply IH. exact Hrest.
Qed.

Lemma ir_unused_eq r s t flat ir :
  create_type_ir r s t flat = Ok (Some ir) ->
  ti_params ir = params_from_scale_info (t_params t) /\ ti_codec ir = s_codec s /\
  ti_unused ir = mark_used (ti_params ir) (flat_map pp_fi (kind_fields (ti_kind ir))).
Proof.
  intros H. rewrite create_type_ir_eq in H.
  destruct (negb (is_composite_or_variant (t_def t))); [discriminate|]. cbv zeta in H.
  destruct (path_ident (t_path t)) as [nm|]; [|discriminate].
  apply bind_ok in H as (name & _ & H).
  apply bind_ok in H as ([[kind cdac] unused] & Hk & H).
  apply bind_ok in H as (d & _ & H). inversion H; subst; clear H. cbn [ti_params ti_unused ti_kind ti_codec].
  split; [reflexivity|]. split; [reflexivity|].
  destruct (t_def t) as [fs|vs| | | | | | ]; try discriminate.
  - apply bind_ok in Hk as ([k u] & Hc & Hk). cbn [fst snd] in Hk. inversion Hk; subst.
    cbn [kind_fields ci_kind]. eapply cck_unused_eq; eauto.
  - apply bind_ok in Hk as ([l u] & Hc & Hk). cbn [fst snd] in Hk. inversion Hk; subst.
    cbn [kind_fields]. eapply variants_unused_eq; eauto.
Qed.

(** ** parameters of a normalised source type = [src_params] *)
Lemma live_args_go defs d xs :
  live_args defs d xs = live_go xs (match nth_error defs d with Some sd => map snd (sd_params sd) | None => [] end).
Proof.
  unfold live_args. generalize (match nth_error defs d with Some sd => map snd (sd_params sd) | None => [] end).
  induction xs as [|x xs IH]; intros sk; [destruct sk; reflexivity|].
  destruct sk as [|[|] sk]; cbn; rewrite ?IH; reflexivity.
Qed.

Lemma src_tpath_app' defs s otp isf d xs :
  src_tpath defs s otp isf (SApp d xs) =
  TPath (rel_path (s_root s :: match nth_error defs d with Some sd => sd_path sd | None => [] end))
        (map (src_tpath defs s otp false) (live_args defs d xs)).
Proof.
  rewrite live_args_go. cbn [src_tpath]. f_equal.
  generalize (match nth_error defs d with Some sd => map snd (sd_params sd) | None => [] end).
  induction xs as [|x xs IH]; intros sk; [destruct sk; reflexivity|].
  destruct sk as [|[|] sk]; cbn [live_go map]; rewrite ?IH; reflexivity.
Qed.

Lemma live_args_incl defs d xs x : In x (live_args defs d xs) -> In x xs.
Proof. rewrite live_args_go. apply live_go_incl. Qed.

Section PP.
  Variable defs : list sdef.
  Variable s : settings.
  Variable otp : bool -> tpath.
  Hypothesis Hotp : forall lsb, parent_params (otp lsb) = [].

  Let ipp (isf : bool) (c : src) : list N := map tpi_idx (parent_params (src_tpath defs s otp isf c)).

  Lemma pp_src_fuel : forall n c isf, (src_size c <= n)%nat -> ipp isf c = map N.of_nat (src_params_fuel n defs c).
  Proof.
    induction n as [|n IH]; intros c isf Hs; [destruct c; cbn [src_size] in Hs; lia|].
    rewrite src_params_S. unfold ipp.
    assert (Hlist : forall l, (sizes l <= n)%nat ->
              map tpi_idx (flat_map parent_params (map (src_tpath defs s otp false) l)) =
              map N.of_nat (flat_map (src_params_fuel n defs) l)).
    { intros l Hl. rewrite flat_map_map'. apply map_flat_map_In2. intros x Hx.
      apply (IH x false). pose proof (sizes_In _ _ Hx). lia. }
    destruct c as [i|d' xs|x|x|len x|xs|p|x|x|x|a b|a b|x|x|x|st lsb]; cbn [src_size] in Hs.
    - reflexivity.
    - rewrite src_tpath_app', pp_TPath, flat_map_map'. apply map_flat_map_In2. intros x Hx.
      apply (IH x false). apply live_args_incl in Hx. pose proof (sizes_In _ _ Hx).
      change (S (sizes xs) <= S n)%nat in Hs. lia.
    - cbn [src_tpath parent_params]. apply (IH x false). lia.
    - cbn [src_tpath parent_params]. apply (IH x false). lia.
    - cbn [src_tpath parent_params]. apply (IH x false). lia.
    - rewrite src_tpath_tup, pp_TTuple. apply Hlist. change (S (sizes xs) <= S n)%nat in Hs. lia.
    - reflexivity.
    - cbn [src_tpath parent_params]. apply (IH x false). lia.
    - cbn [src_tpath]. apply (IH x isf). lia.
    - cbn [src_tpath]. rewrite pp_TPath. cbn [flat_map]. rewrite app_nil_r. apply (IH x false). lia.
    - cbn [src_tpath]. rewrite pp_TPath. cbn [flat_map]. rewrite app_nil_r, !map_app.
      rewrite <- (IH a false), <- (IH b false) by lia. reflexivity.
    - cbn [src_tpath]. rewrite pp_TPath. cbn [flat_map]. rewrite app_nil_r, !map_app.
      rewrite <- (IH a false), <- (IH b false) by lia. reflexivity.
    - cbn [src_tpath]. rewrite pp_TPath. cbn [flat_map]. rewrite app_nil_r. apply (IH x false). lia.
    - cbn [src_tpath]. apply (IH x isf). lia.
    - cbn [src_tpath]. rewrite pp_TPath. cbn [flat_map]. rewrite app_nil_r. apply (IH x false). lia.
    - cbn [src_tpath parent_params]. rewrite Hotp. reflexivity.
  Qed.

  Lemma pp_src isf c :
    map tpi_idx (parent_params (src_tpath defs s otp isf c)) = map N.of_nat (src_params defs c).
  Proof. apply pp_src_fuel. apply le_n. Qed.

  Lemma pp_normal_field sf :
    map tpi_idx (parent_params (fi_path (normal_field defs s otp sf))) = map N.of_nat (src_params defs (sf_ty sf)).
  Proof.
    unfold normal_field. cbn [fi_path]. destruct (sf_compact_attr sf); [|apply pp_src].
    rewrite pp_src. reflexivity.
  Qed.
End PP.

Lemma body_params_fields defs sd :
  body_params defs (sd_body sd) = flat_map (fun sf => src_params defs (sf_ty sf)) (def_sfields sd).
Proof.
  unfold body_params, def_sfields. destruct (sd_body sd) as [fs|vs]; [reflexivity|].
  rewrite flat_map_flat_map. reflexivity.
Qed.

(** ** declared generics are pairwise distinct positions *)
Lemma generics_go_spec : forall (pl : list (string * bool)) k,
  let g := flat_map (fun ip : nat * (string * bool) => if snd (snd ip) then [] else [fst ip])
                    (combine (seq k (List.length pl)) pl) in
  NoDup g /\ forall i, In i g -> (k <= i)%nat.
Proof.
  induction pl as [|[nm sk] pl IH]; intros k; cbn zeta.
  - split; [constructor|intros i []].
  - cbn [List.length seq combine flat_map fst snd]. destruct (IH (S k)) as [Hn Hge]. cbv zeta in Hn, Hge.
    destruct sk; cbn [app].
    + split; [exact Hn|]. intros i Hi. specialize (Hge i Hi). lia.
    + split.
      * constructor; [|exact Hn]. intros Hin. specialize (Hge k Hin). lia.
      * intros i [<-|Hi]; [lia|]. specialize (Hge i Hi). lia.
Qed.

Lemma generics_NoDup sd : NoDup (generics_of sd).
Proof. unfold generics_of. apply (generics_go_spec (sd_params sd) 0). Qed.

(** ** a filter on the parents = the same filter on the declared positions *)
Lemma filter_positions : forall (parents : list tparam_ir) (G : list nat) (f : tparam_ir -> bool) (g : nat -> bool),
  map tpi_idx parents = map N.of_nat G ->
  (forall p, In p parents -> f p = g (N.to_nat (tpi_idx p))) ->
  map erase_tpi (filter f parents) = map pos_tpi (filter g G).
Proof.
  induction parents as [|p parents IH]; intros G f g Hm Hfg; destruct G as [|i G]; try discriminate; [reflexivity|].
  cbn [map] in Hm. injection Hm as Hi Hm. cbn [filter].
  rewrite (Hfg p (or_introl eq_refl)), Hi, Nat2N.id.
  assert (Hrest : map erase_tpi (filter f parents) = map pos_tpi (filter g G)).
  { apply IH; [exact Hm|]. intros q Hq. apply Hfg. right; exact Hq. }
  destruct (g i); cbn [map]; rewrite Hrest; [|reflexivity].
  unfold erase_tpi, pos_tpi. rewrite Hi. reflexivity.
Qed.

Lemma parse_ident_ok x y : parse_ident x = Ok y -> y = x.
Proof. unfold parse_ident. destruct (ident_okb x); intros H; inversion H; reflexivity. Qed.

Lemma path_ident_last p nm : path_ident p = Some nm -> nm = last p "".
Proof. destruct p; intros H; inversion H; reflexivity. Qed.

Lemma positions_eq : forall (parents : list tparam_ir) (G : list nat),
  map tpi_idx parents = map N.of_nat G -> map erase_tpi parents = map pos_tpi G.
Proof.
  induction parents as [|p parents IH]; intros G H; destruct G as [|i G]; try discriminate; [reflexivity|].
  cbn [map] in *. injection H as Hi H. rewrite (IH G H). unfold erase_tpi, pos_tpi. rewrite Hi. reflexivity.
Qed.

(** ** inversion of [create_type_ir] *)
Lemma create_type_ir_inv r s t flat ir :
  create_type_ir r s t flat = Ok (Some ir) ->
  let P := params_from_scale_info (t_params t) in
  ti_params ir = P /\ ti_codec ir = s_codec s /\
  exists nm, path_ident (t_path t) = Some nm /\
  ((exists fs k u, t_def t = TDComposite fs /\ create_composite_ir_kind r s fs P P = Ok (k, u) /\
      ti_kind ir = KStruct (mk_ci nm k (docs_from_scale_info s (t_docs t))) /\ ti_unused ir = u) \/
   (exists vs l u, t_def t = TDVariant vs /\ variants_ir r s P vs P = Ok (l, u) /\
      ti_kind ir = KEnum nm (docs_from_scale_info s (t_docs t)) l /\ ti_unused ir = u)).
Proof.
  intros H. rewrite create_type_ir_eq in H.
  destruct (negb (is_composite_or_variant (t_def t))); [discriminate|]. cbv zeta in H.
  destruct (path_ident (t_path t)) as [nm|]; [|discriminate].
  apply bind_ok in H as (name & Hname & H). apply parse_ident_ok in Hname. subst name.
  apply bind_ok in H as ([[kind cdac] unused] & Hk & H).
  apply bind_ok in H as (d & _ & H). inversion H; subst; clear H. cbn [ti_params ti_unused ti_kind ti_codec].
  cbv zeta. split; [reflexivity|]. split; [reflexivity|]. exists nm. split; [reflexivity|].
  destruct (t_def t) as [fs|vs| | | | | | ]; try discriminate.
  - left. apply bind_ok in Hk as ([k u] & Hc & Hk). cbn [fst snd] in Hk. inversion Hk; subst.
    exists fs, k, unused. auto.
  - right. apply bind_ok in Hk as ([l u] & Hc & Hk). cbn [fst snd] in Hk. inversion Hk; subst.
    exists vs, l, unused. auto.
Qed.

Lemma Forall2_In_r {A B} (R : A -> B -> Prop) la lb b : Forall2 R la lb -> In b lb -> exists a, In a la /\ R a b.
Proof.
  induction 1 as [|x y la lb Hxy _ IH]; intros Hb; [destruct Hb|].
  destruct Hb as [<-|Hb]; [exists x; split; [left; reflexivity|exact Hxy]|].
  destruct (IH Hb) as (a & Ha & Hab). exists a. split; [right; exact Ha|exact Hab].
Qed.

Lemma ir_fields_resolved r s t flat ir :
  create_type_ir r s t flat = Ok (Some ir) ->
  forall fi, In fi (kind_fields (ti_kind ir)) ->
  exists f, field_ir_of r s (params_from_scale_info (t_params t)) f = Ok fi.
Proof.
  intros H fi Hfi. destruct (create_type_ir_inv _ _ _ _ _ H) as (_ & _ & nm & _ & [Hs|He]).
  - destruct Hs as (fs & k & u & _ & Hc & Hk & _). rewrite Hk in Hfi. cbn [kind_fields ci_kind] in Hfi.
    destruct (Forall2_In_r _ _ _ _ (cck_fields _ _ _ _ _ _ _ Hc) Hfi) as (f & _ & Hf). eauto.
  - destruct He as (vs & l & u & _ & Hc & Hk & _). rewrite Hk in Hfi. cbn [kind_fields] in Hfi.
    apply in_flat_map in Hfi as (x & Hx & Hfi).
    destruct (Forall2_In_r _ _ _ _ (variants_fields _ _ _ _ _ _ _ Hc) Hx) as (v & _ & Hv).
    destruct (Forall2_In_r _ _ _ _ Hv Hfi) as (f & _ & Hf). eauto.
Qed.

Lemma ir_used_in_parents r s t flat ir :
  create_type_ir r s t flat = Ok (Some ir) ->
  forall q, In q (flat_map pp_fi (kind_fields (ti_kind ir))) -> In q (params_from_scale_info (t_params t)).
Proof.
  intros H q Hq. apply in_flat_map in Hq as (fi & Hfi & Hq).
  destruct (ir_fields_resolved _ _ _ _ _ H fi Hfi) as (f & Hf).
  unfold field_ir_of, resolve_field_type_path in Hf. apply bind_ok in Hf as (p & Hp & Hf). inversion Hf; subst fi.
  unfold pp_fi in Hq. cbn [fi_path] in Hq. exact (resolve_params_in _ _ _ _ _ _ _ _ Hp _ Hq).
Qed.

(** ** the whole erased IR of an instantiation *)
Section Full.
  Variable defs : list sdef.
  Variable L : N -> option src.
  Variable r : registry.
  Variable s : settings.
  Variable otp : bool -> tpath.
  Hypothesis HR : RegistryOf defs L r.
  Hypothesis Hdefs : forall sd, In sd defs -> def_okb s sd = true.
  Hypothesis Hprel : prelude_okb s = true.
  Hypothesis Hord : order_resolves s otp.

  Variable d : nat.
  Variable sd : sdef.
  Variable args : list src.
  Hypothesis Hsd : nth_error defs d = Some sd.
  Hypothesis Hcf : instantiation_cf defs sd args = true.
  Hypothesis Hcan : map canon args = args.
  Hypothesis Hfrag : forallb (fun f => no_cow_cow (sf_ty f)) (def_sfields sd) = true.
  Hypothesis Hcompact : compact_fields_okb defs sd args = true.
  Hypothesis Hbox : box_names_okb defs sd = true.

  Variable t : ty.
  Hypothesis Hent : entry_of defs L r (SApp d args) t.

  Let parents := params_from_scale_info (t_params t).
  Let pnames := map fst (sd_params sd).
  Let nf := normal_field defs s otp.

  Lemma Hfield sf f fi :
    In sf (def_sfields sd) -> field_of defs L pnames args sf f -> field_ir_of r s parents f = Ok fi ->
    erase_fi fi = nf sf.
  Proof.
    exact (field_skeleton defs L r s otp HR Hdefs Hprel Hord d sd args Hsd Hcf Hcan Hfrag Hcompact Hbox t Hent sf f fi).
  Qed.

  Lemma all_named_src : forall fs fl,
    Forall2 (field_of defs L pnames args) fs fl -> all_named fl = forallb sf_named fs.
  Proof.
    induction 1 as [|sf f fs fl (Hn & _) _ IH]; [reflexivity|].
    unfold all_named in *. cbn [forallb]. rewrite IH. unfold sf_named at 1. rewrite Hn. reflexivity.
  Qed.

  Lemma otp_pp lsb : parent_params (otp lsb) = [].
  Proof. destruct (tpmws_shape _ _ _ (Hord lsb)) as (toks & ->). reflexivity. Qed.

  Lemma cck_kind fs fl u k u' :
    (forall sf, In sf fs -> In sf (def_sfields sd)) ->
    Forall2 (field_of defs L pnames args) fs fl ->
    create_composite_ir_kind r s fl parents u = Ok (k, u') ->
    erase_ckind k = src_ckind defs s otp fs.
  Proof.
    intros Hin Hfl Hc.
    pose proof (cck_fields _ _ _ _ _ _ _ Hc) as Hfi.
    assert (Hnf : Forall2 (fun sf fi => erase_fi fi = nf sf) fs (ckind_fields k)).
    { eapply (Forall2_trans_In _ _ _ fs fl _ Hfl Hfi). intros a b c Ha Hab Hbc. eapply Hfield; eauto. }
    pose proof (all_named_src _ _ Hfl) as Han.
    unfold create_composite_ir_kind in Hc.
    destruct fl as [|f0 fl0].
    { inversion Hfl; subst. inversion Hc; subst. reflexivity. }
    destruct fs as [|sf0 fs0]; [inversion Hfl|].
    destruct (negb (all_named (f0 :: fl0) || all_unnamed (f0 :: fl0))); [discriminate|].
    unfold src_ckind. rewrite <- Han.
    destruct (all_named (f0 :: fl0)).
    - apply bind_ok in Hc as (l & Hl & Hc). inversion Hc; subst k u'. cbn [erase_ckind]. f_equal.
      cbn [ckind_fields] in Hnf. apply Forall2_map_r in Hnf.
      apply mapM_ok_Forall2 in Hl.
      assert (Hnm : Forall2 (fun sf x => fst x = sf_ident sf) (sf0 :: fs0) l).
      { eapply (Forall2_trans_In _ _ _ _ _ _ Hfl Hl). intros a b c _ (Hname & _) Hbc.
        apply bind_ok in Hbc as (id & Hid & Hbc). apply bind_ok in Hbc as (fi & _ & Hbc). inversion Hbc; subst c.
        cbn [fst]. apply parse_ident_ok in Hid. rewrite Hid, Hname. reflexivity. }
      symmetry. apply map_eq_Forall2.
      eapply Forall2_impl; [|exact (Forall2_conj _ _ _ _ Hnm Hnf)].
      intros a b [H1 H2]. cbv beta. rewrite H1, H2. reflexivity.
    - apply bind_ok in Hc as (l & Hl & Hc). inversion Hc; subst k u'. cbn [erase_ckind]. f_equal.
      cbn [ckind_fields] in Hnf. symmetry. apply map_eq_Forall2.
      eapply Forall2_impl; [|exact Hnf]. intros a b H. symmetry. exact H.
  Qed.

  Lemma variants_kind : forall vs vl,
    Forall2 (fun (v : string * N * list sfield) (vr : variant) =>
               v_name vr = fst (fst v) /\ v_index vr = snd (fst v) /\
               Forall2 (field_of defs L pnames args) (snd v) (v_fields vr)) vs vl ->
    forall u l u',
    (forall v, In v vs -> forall sf, In sf (snd v) -> In sf (def_sfields sd)) ->
    variants_ir r s parents vl u = Ok (l, u') ->
    map (fun x : N * composite_ir => (fst x, erase_ci (snd x))) l =
    map (fun v : string * N * list sfield =>
           (snd (fst v), mk_ci (fst (fst v)) (src_ckind defs s otp (snd v)) [])) vs.
  Proof.
    induction 1 as [|v vr vs vl (Hn & Hi & Hf) Hvl IH]; intros u l u' Hin H.
    - cbn in H. inversion H; subst. reflexivity.
    - rewrite variants_ir_cons in H. apply bind_ok in H as (vn & Hvn & H).
      apply bind_ok in H as ([k u1] & Hk & H). apply bind_ok in H as ([l' u2] & Hrest & H).
      cbn [fst snd] in H, Hk, Hrest. inversion H; subst l u'. cbn [map fst snd]. f_equal.
      + unfold erase_ci. cbn [ci_name ci_kind]. apply parse_ident_ok in Hvn. rewrite Hvn, Hn, Hi.
        rewrite (cck_kind (snd v) (v_fields vr) u k u1 (Hin v (or_introl eq_refl)) Hf Hk). reflexivity.
      + apply (IH _ _ _ (fun v' Hv' => Hin v' (or_intror Hv')) Hrest).
  Qed.

  (** C05_skeleton_is_source: the erased IR of the instantiation is [ir_of_source] of the definition *)
  Theorem skeleton_full flat ir :
    create_type_ir r s t flat = Ok (Some ir) -> erase_ids ir = ir_of_source defs s otp sd.
  Proof.
    intros Hc.
    destruct (skeleton_is_source defs L r s otp HR Hdefs Hprel Hord d sd args Hsd Hcf Hcan Hfrag Hcompact Hbox
                t Hent flat ir Hc) as (Hidx & Hfields).
    destruct (ir_unused_eq _ _ _ _ _ Hc) as (Hpar & Hcodec & Hun).
    destruct (ent_inv defs L r d sd args Hsd t Hent) as (Hpath & Hlen & Hps & Hbody).
    fold pnames in Hbody.
    assert (Hidx' : map tpi_idx parents = map N.of_nat (generics_of sd)) by (unfold parents; rewrite <- Hpar; exact Hidx).
    unfold erase_ids, ir_of_source. f_equal.
    - rewrite Hpar. apply positions_eq. exact Hidx'.
    - rewrite Hun, Hpar. fold parents. unfold mark_used, unused_generics.
      apply filter_positions; [exact Hidx'|]. intros p Hp. f_equal.
      set (U := flat_map pp_fi (kind_fields (ti_kind ir))).
      assert (HUin : forall q, In q U -> In q parents) by (apply (ir_used_in_parents _ _ _ _ _ Hc)).
      assert (HUidx : map tpi_idx U = map N.of_nat (body_params defs (sd_body sd))).
      { rewrite body_params_fields. unfold U. apply map_flat_map_Forall2.
        eapply Forall2_impl; [|exact Hfields]. intros sf fi H. unfold pp_fi.
        rewrite <- pp_erase. change (erase_tpath (fi_path fi)) with (fi_path (erase_fi fi)). rewrite H.
        apply pp_normal_field. exact otp_pp. }
      assert (HND : NoDup (map tpi_idx parents)).
      { rewrite Hidx'. apply FinFun.Injective_map_NoDup; [intros a b; apply Nat2N.inj|apply generics_NoDup]. }
      apply eq_true_iff_eq. rewrite !existsb_exists. split.
      + intros (q & Hq & E). apply tpi_eqb_eq in E. subst q.
        assert (Hi : In (tpi_idx p) (map N.of_nat (body_params defs (sd_body sd)))) by (rewrite <- HUidx; apply in_map; exact Hq).
        apply in_map_iff in Hi as (b & Hb & Hi). exists b. split; [exact Hi|]. rewrite <- Hb, Nat2N.id. apply Nat.eqb_refl.
      + intros (b & Hb & E). apply Nat.eqb_eq in E. subst b.
        assert (Hi : In (tpi_idx p) (map tpi_idx U)).
        { rewrite HUidx. rewrite <- (N2Nat.id (tpi_idx p)). apply in_map. exact Hb. }
        apply in_map_iff in Hi as (q & Hq & Hi). exists q. split; [exact Hi|].
        apply tpi_eqb_eq. apply (NoDup_map_inj tpi_idx parents); auto.
    - exact Hcodec.
    - destruct (create_type_ir_inv _ _ _ _ _ Hc) as (_ & _ & nm & Hnm & Hk). fold parents in Hk.
      apply path_ident_last in Hnm. rewrite Hpath in Hnm. subst nm.
      destruct Hk as [(fs' & k & u & Hd & Hcc & Hkind & _)|(vs' & l & u & Hd & Hcc & Hkind & _)]; rewrite Hkind.
      + destruct (sd_body sd) as [fs|vs] eqn:Eb.
        2:{ destruct Hbody as (vl & Hd' & _). congruence. }
        destruct Hbody as (fl & Hd' & Hfl). rewrite Hd' in Hd. inversion Hd; subst fs'.
        cbn [erase_kind]. unfold erase_ci. cbn [ci_name ci_kind]. f_equal. f_equal.
        apply (cck_kind fs fl parents k u); [|exact Hfl|exact Hcc].
        intros sf Hsf. unfold def_sfields. rewrite Eb. exact Hsf.
      + destruct (sd_body sd) as [fs|vs] eqn:Eb.
        { destruct Hbody as (fl & Hd' & _). congruence. }
        destruct Hbody as (vl & Hd' & Hvl). rewrite Hd' in Hd. inversion Hd; subst vs'.
        cbn [erase_kind]. f_equal.
        apply (variants_kind vs vl Hvl parents l u); [|exact Hcc].
        intros v Hv sf Hsf. unfold def_sfields. rewrite Eb. apply in_flat_map. exists v. split; assumption.
  Qed.
End Full.

(** ** C05_one_item: two instantiations of one definition have the same erased IR *)
Theorem one_item_full defs L r s (otp : bool -> tpath) :
  RegistryOf defs L r -> (forall sd, In sd defs -> def_okb s sd = true) ->
  prelude_okb s = true -> order_resolves s otp ->
  forall d sd, nth_error defs d = Some sd ->
  forallb (fun f => no_cow_cow (sf_ty f)) (def_sfields sd) = true -> box_names_okb defs sd = true ->
  forall args1 args2 t1 t2 flat1 flat2 ir1 ir2,
  instantiation_cf defs sd args1 = true -> map canon args1 = args1 -> compact_fields_okb defs sd args1 = true ->
  instantiation_cf defs sd args2 = true -> map canon args2 = args2 -> compact_fields_okb defs sd args2 = true ->
  entry_of defs L r (SApp d args1) t1 -> entry_of defs L r (SApp d args2) t2 ->
  create_type_ir r s t1 flat1 = Ok (Some ir1) -> create_type_ir r s t2 flat2 = Ok (Some ir2) ->
  erase_ids ir1 = erase_ids ir2.
Proof.
  intros HR Hdefs Hprel Hord d sd Hsd Hfrag Hbox args1 args2 t1 t2 flat1 flat2 ir1 ir2
         Hcf1 Hcan1 Hco1 Hcf2 Hcan2 Hco2 He1 He2 Hc1 Hc2.
  rewrite (skeleton_full defs L r s otp HR Hdefs Hprel Hord d sd args1 Hsd Hcf1 Hcan1 Hfrag Hco1 Hbox t1 He1 flat1 ir1 Hc1).
  rewrite (skeleton_full defs L r s otp HR Hdefs Hprel Hord d sd args2 Hsd Hcf2 Hcan2 Hfrag Hco2 Hbox t2 He2 flat2 ir2 Hc2).
  reflexivity.
Qed.

(** ** registries of programs are skeleton-consistent *)
Lemma skeleton_ext r s X X0 :
  t_path X = t_path X0 -> t_params X = t_params X0 -> t_def X = t_def X0 -> skeleton r s X = skeleton r s X0.
Proof.
  destruct X as [p ps d docs], X0 as [p0 ps0 d0 docs0]. cbn [t_path t_params t_def]. intros -> -> ->.
  unfold skeleton. rewrite !create_type_ir_eq. cbn [t_def t_path t_params t_docs].
  destruct (negb (is_composite_or_variant d0)); [reflexivity|]. cbv zeta.
  destruct (path_ident p0) as [nm|]; [|reflexivity].
  destruct (parse_ident nm) as [name|e|msg]; cbn [bind]; try reflexivity.
  unfold resolve_derives_for_type. cbn [t_path].
  destruct d0; try reflexivity.
  - destruct (create_composite_ir_kind r s fs (params_from_scale_info ps0) (params_from_scale_info ps0))
      as [[k u]|e|msg]; cbn [bind fst snd]; try reflexivity.
    destruct (Derives.syn_type_path_key p0); cbn [bind]; reflexivity.
  - destruct (variants_ir r s (params_from_scale_info ps0) vs (params_from_scale_info ps0))
      as [[l u]|e|msg]; cbn [bind fst snd]; try reflexivity.
    destruct (Derives.syn_type_path_key p0); cbn [bind]; reflexivity.
Qed.

Section ProgramConsistent.
  Variable defs : list sdef.
  Variable L : N -> option src.
  Variable r : registry.
  Variable s : settings.
  Variable otp : bool -> tpath.
  Hypothesis HR : RegistryOf defs L r.
  Hypothesis Hprel : prelude_okb s = true.
  Hypothesis Hord : order_resolves s otp.
  (** the definitions: settings-compatible paths, no nested Cow, recorded names mention Box iff the
      type does, no definition sits at the path of a bit-order marker *)
  Hypothesis Hdefs : forall sd, In sd defs ->
    def_okb s sd = true /\ forallb (fun f => no_cow_cow (sf_ty f)) (def_sfields sd) = true /\
    box_names_okb defs sd = true /\ forall lsb, sd_path sd <> order_path_of lsb.
  (** paths of definitions pairwise distinct *)
  Hypothesis Hpaths : forall d1 d2 sd1 sd2,
    nth_error defs d1 = Some sd1 -> nth_error defs d2 = Some sd2 -> sd_path sd1 = sd_path sd2 -> d1 = d2.
  (** every interned instantiation is coincidence-free *)
  Hypothesis Hinst : forall id d args sd,
    L id = Some (SApp d args) -> nth_error defs d = Some sd ->
    instantiation_cf defs sd args = true /\ map canon args = args /\ compact_fields_okb defs sd args = true.
  (** every item-eligible entry has an IR (true whenever generation succeeds) *)
  Hypothesis Hir : forall id X, In (id, X) r -> item_eligible s X = true ->
    exists ir, create_type_ir r s X flat0 = Ok (Some ir).

  Lemma entry_eligible c X : entry_of defs L r c X -> item_eligible s X = true -> exists d args, c = SApp d args.
  Proof.
    intros He Hel. unfold item_eligible in Hel.
    destruct c; cbn [entry_of] in He.
    - destruct He.
    - eauto.
    - destruct He as (e & (Hp & _ & Hd) & _). rewrite Hd in Hel. discriminate.
    - destruct He.
    - destruct He as (e & (Hp & _ & Hd) & _). rewrite Hd in Hel. discriminate.
    - destruct He as (e & (Hp & _ & Hd) & _). rewrite Hd in Hel. discriminate.
    - destruct He as (Hp & _ & Hd). rewrite Hd in Hel. discriminate.
    - destruct He as (e & (Hp & _ & Hd) & _). rewrite Hd in Hel. discriminate.
    - destruct He.
    - destruct He as (e & _ & Hp & _). rewrite Hp, andb_false_r in Hel. discriminate.
    - destruct He as (x & y & _ & _ & Hp & _). rewrite Hp, andb_false_r in Hel. discriminate.
    - destruct He as (ik & iv & iseq & _ & _ & _ & Hp & _). rewrite Hp, andb_false_r in Hel. discriminate.
    - destruct He as (e & iseq & _ & _ & Hp & _). rewrite Hp, andb_false_r in Hel. discriminate.
    - destruct He as (e & _ & Hp & _). rewrite Hp, andb_false_r in Hel. discriminate.
    - destruct He as (e & _ & Hp & _). rewrite Hp, andb_false_r in Hel. discriminate.
    - destruct He as (ist & io & ot & (Hp & _ & Hd) & _). rewrite Hd in Hel. discriminate.
  Qed.

  (** an item-eligible entry is an instantiation of a definition or a bit-order marker *)
  Lemma eligible_cases id X :
    In (id, X) r -> item_eligible s X = true ->
    (exists k d args sd, L k = Some (SApp d args) /\ nth_error defs d = Some sd /\
                         entry_of defs L r (SApp d args) X /\ t_path X = sd_path sd) \/
    (exists lsb, order_marker lsb X).
  Proof.
    intros Hin Hel. apply In_nth_error in Hin as (k & Hk).
    assert (Hres : resolve r (N.of_nat k) = Some X) by (unfold resolve; rewrite Nat2N.id, Hk; reflexivity).
    destruct HR as (H1 & H2 & _).
    destruct (L (N.of_nat k)) as [c|] eqn:El.
    - left. destruct (H1 _ _ El) as (t & Hr & He). rewrite Hres in Hr. inversion Hr; subst t.
      destruct (entry_eligible c X He Hel) as (d & args & ->).
      pose proof He as He'. cbn [entry_of] in He'. destruct He' as (sd & Hsd & Hp & _).
      exists (N.of_nat k), d, args, sd. auto.
    - right. exact (H2 _ _ Hres El).
  Qed.

  Theorem program_skeleton_consistent : skeleton_consistent r s.
  Proof.
    intros id X id0 X0 Hin Hel Hfirst.
    destruct (first_eligible_some _ _ _ _ _ Hfirst) as (Hin0 & Hp0 & Hel0).
    destruct (eligible_cases id X Hin Hel) as [(k & d & args & sd & Hl & Hsd & He & Hp)|(lsb & Hm)];
      destruct (eligible_cases id0 X0 Hin0 Hel0) as [(k0 & d0 & args0 & sd0 & Hl0 & Hsd0 & He0 & Hp')|(lsb0 & Hm0)].
    - assert (d0 = d) by (apply (Hpaths d0 d sd0 sd Hsd0 Hsd); congruence). subst d0.
      assert (sd0 = sd) by congruence. subst sd0.
      destruct (Hir id X Hin Hel) as (ir & Hc). destruct (Hir id0 X0 Hin0 Hel0) as (ir0 & Hc0).
      unfold skeleton. rewrite Hc, Hc0. f_equal.
      destruct (Hdefs sd (nth_error_In _ _ Hsd)) as (_ & Hfrag & Hbox & _).
      destruct (Hinst k d args sd Hl Hsd) as (Hcf & Hcan & Hco).
      destruct (Hinst k0 d args0 sd Hl0 Hsd) as (Hcf0 & Hcan0 & Hco0).
      apply (one_item_full defs L r s otp HR (fun sd' H => proj1 (Hdefs sd' H)) Hprel Hord d sd Hsd Hfrag Hbox
               args args0 X X0 flat0 flat0 ir ir0); assumption.
    - exfalso. destruct Hm0 as (Hpm & _). destruct (Hdefs sd (nth_error_In _ _ Hsd)) as (_ & _ & _ & Hno).
      apply (Hno lsb0). unfold order_path_of. congruence.
    - exfalso. destruct Hm as (Hpm & _). destruct (Hdefs sd0 (nth_error_In _ _ Hsd0)) as (_ & _ & _ & Hno).
      apply (Hno lsb). unfold order_path_of. congruence.
    - destruct Hm as (Hpm & Hps & Hd), Hm0 as (Hpm0 & Hps0 & Hd0).
      apply skeleton_ext; congruence.
  Qed.
End ProgramConsistent.

(** C05_program_faithful: program-derived registries satisfy the hypothesis of [C01_fidelity] *)
Theorem program_faithful defs L r s (otp : bool -> tpath) teq m :
  RegistryOf defs L r -> prelude_okb s = true -> order_resolves s otp ->
  (forall sd, In sd defs ->
     def_okb s sd = true /\ forallb (fun f => no_cow_cow (sf_ty f)) (def_sfields sd) = true /\
     box_names_okb defs sd = true /\ forall lsb, sd_path sd <> order_path_of lsb) ->
  (forall d1 d2 sd1 sd2,
     nth_error defs d1 = Some sd1 -> nth_error defs d2 = Some sd2 -> sd_path sd1 = sd_path sd2 -> d1 = d2) ->
  (forall id d args sd,
     L id = Some (SApp d args) -> nth_error defs d = Some sd ->
     instantiation_cf defs sd args = true /\ map canon args = args /\ compact_fields_okb defs sd args = true) ->
  Shape.root_fresh s -> generate r s teq = Ok m -> Faithful r s m.
Proof.
  intros HR Hprel Hord Hdefs Hpaths Hinst Hroot Hgen.
  apply (generate_faithful r s teq m); [|exact Hroot|exact Hgen].
  apply (program_skeleton_consistent defs L r s otp HR Hprel Hord Hdefs Hpaths Hinst).
  intros id X Hin Hel. pose proof Hgen as Hg. unfold generate in Hg.
  apply bind_ok in Hg as (u & _ & Hg). apply bind_ok in Hg as (flat & _ & Hg).
  destruct (gen_loop_all_ok r s teq flat r [] m Hg id X Hin Hel) as (ir & Hc).
  destruct (create_type_ir_flat r s X flat flat0 ir Hc) as (ir' & Hc' & _). eauto.
Qed.

Lemma ir_of_source_spec defs s order_tp d :
  ti_params (ir_of_source defs s order_tp d) = map pos_tpi (generics_of d) /\
  ti_unused (ir_of_source defs s order_tp d) =
    map pos_tpi (filter (fun i => negb (existsb (Nat.eqb i) (body_params defs (sd_body d)))) (generics_of d)) /\
  kind_fields (ti_kind (ir_of_source defs s order_tp d)) = map (normal_field defs s order_tp) (def_sfields d).
Proof.
  split; [reflexivity|]. split; [reflexivity|].
  assert (Hck : forall fs, ckind_fields (src_ckind defs s order_tp fs) = map (normal_field defs s order_tp) fs).
  { intros fs. unfold src_ckind. destruct fs as [|f fs]; [reflexivity|].
    destruct (forallb sf_named (f :: fs)); cbn [ckind_fields]; [rewrite map_map|]; reflexivity. }
  unfold ir_of_source, def_sfields. cbn [ti_kind]. destruct (sd_body d) as [fs|vs]; cbn [kind_fields ci_kind].
  - apply Hck.
  - induction vs as [|v vs IH]; [reflexivity|]. cbn [map flat_map snd ci_kind]. rewrite Hck, map_app, IH. reflexivity.
Qed.
