(** C10, non-vacuity of the global missing-id theorems: [missing_ex_reg] (Proofs/MissingIdGuard.v)
    a::S { x: Vec<#7>, y: u8 }, Vec<#7>, u8, a::T { y: u8 }, (u8, Vec<#7>) - one dangling id, 7,
    referenced by the sequence entry. *)
From Coq Require Import List NArith String Bool Lia.
From V Require Import Base.Strings Base.Result Model.Registry Model.Settings Model.Subst
  Model.TypePath Model.Derives Model.Generate Model.Equal Model.WellFormed Model.Renumber
  Model.ExamplesTG Model.MissingId
  Proofs.ResolveTotal Proofs.MissingId Proofs.MissingIdGuard Proofs.MissingIdGen
  Proofs.MissingIdDescent Corr.CheckTG.
Import ListNotations.
Open Scope list_scope. Open Scope N_scope.

Example missing_ex_unique : unique_item_paths missing_ex_reg ex_set.
Proof.
  intros e1 e2 H1 H2.
  unfold missing_ex_reg in H1, H2. cbn [In] in H1, H2.
  repeat destruct H1 as [H1|H1]; try contradiction;
    repeat destruct H2 as [H2|H2]; try contradiction;
    subst e1 e2; intros I1 I2 P; try reflexivity;
    try (vm_compute in I1; discriminate I1);
    try (vm_compute in I2; discriminate I2);
    try (vm_compute in P; discriminate P).
Qed.

Example missing_ex_class : exists rank, generable_but missing_ex_reg ex_set rank 7.
Proof.
  apply guard_generable_but.
  - vm_compute; reflexivity.
  - vm_compute; reflexivity.
  - intros c Hc. vm_compute in Hc. destruct Hc as [<-|[]]. reflexivity.
  - unfold in_reg. vm_compute. discriminate.
  - vm_compute; reflexivity.
Qed.

(** the tuple entry 4 reaches the missing id through the sequence entry 1 *)
Example missing_ex_reaches : reaches_missing missing_ex_reg [] 4 None 7.
Proof.
  eapply RM_child with (c := 1); [reflexivity|reflexivity|reflexivity|right; left; reflexivity|].
  eapply RM_child with (c := 7); [reflexivity|reflexivity|reflexivity|left; reflexivity|].
  apply RM_here; reflexivity.
Qed.

Example missing_id_example :
  exists r s m rank,
    generable_but r s rank m /\ unique_item_paths r s /\ dr_recursive (s_dreg s) = [] /\
    (* a site that reaches the missing id *)
    reaches_missing r [] 4 None m /\ resolve_type_path r s 4 = Err (ETypeNotFound m) /\
    path_verdict r s 4 = DFail (FMissing m) /\
    (* a composite entry with such a field does not: fields are not descended into *)
    ~ reaches_missing r [] 0 None m /\ (exists t, resolve_type_path r s 0 = Ok t) /\
    path_verdict r s 0 = DClean /\
    (* ... but generation resolves its fields *)
    (exists e, In e r /\ item_entry s (snd e) = true /\ entry_reaches_missing r (snd e) m) /\
    generate r s (types_equal r) = Err (ETypeNotFound m).
Proof.
  destruct missing_ex_class as (rank & Hgen).
  exists missing_ex_reg, ex_set, 7, rank.
  pose proof (proj1 (proj2 Hgen)) as Hres.
  split; [exact Hgen|]. split; [exact missing_ex_unique|]. split; [reflexivity|].
  split; [exact missing_ex_reaches|].
  assert (H4 : in_reg missing_ex_reg 4) by (unfold in_reg; vm_compute; reflexivity).
  assert (H0 : in_reg missing_ex_reg 0) by (unfold in_reg; vm_compute; reflexivity).
  split; [exact (proj1 (missing_id_resolve _ _ _ _ Hres 4 (or_introl H4)) missing_ex_reaches)|].
  split; [vm_compute; reflexivity|].
  assert (Hok : exists t, resolve_type_path missing_ex_reg ex_set 0 = Ok t) by (vm_compute; eauto).
  split.
  { intros Hc. destruct Hok as (t & Ht).
    rewrite (proj1 (missing_id_resolve _ _ _ _ Hres 0 (or_introl H0)) Hc) in Ht.
    discriminate. }
  split; [exact Hok|]. split; [vm_compute; reflexivity|].
  assert (Hbad : exists e, In e missing_ex_reg /\ item_entry ex_set (snd e) = true /\
                           entry_reaches_missing missing_ex_reg (snd e) 7).
  { eexists. split; [left; reflexivity|]. split; [vm_compute; reflexivity|].
    eexists. split; [left; reflexivity|]. cbn [f_ty f_type_name snd t_params].
    eapply RM_child with (c := 7); [reflexivity|reflexivity|reflexivity|left; reflexivity|].
    apply RM_here; reflexivity. }
  split; [exact Hbad|].
  apply (proj1 (missing_id_generate _ _ _ _ Hgen (types_equal missing_ex_reg) missing_ex_unique eq_refl)).
  exact Hbad.
Qed.

Example missing_ex_gen_verdict :
  gen_verdict missing_ex_reg ex_set = (DFail (FMissing 7), false).
Proof. vm_compute. reflexivity. Qed.
