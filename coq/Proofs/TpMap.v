(** Induction principle for the nested inductive [tpath], unfolding equations of
    [tp_tokens], and commutation of [tp_tokens] with a token renaming
    (used by C09: Proofs/EmitMap.v, Proofs/SubstMap.v, Proofs/Frames.v and by
    C17: Proofs/Equivariance.v). *)
From Coq Require Import List NArith String Bool Lia.
From V Require Import Base.Strings Base.Result Model.Registry Model.Settings Model.Subst
  Model.TypePath Model.Derives Model.Generate Model.Emit Model.WellFormed Model.Switches.
Import ListNotations.
Open Scope string_scope. Open Scope list_scope.

(** ** induction on [tpath] with [Forall] for the nested lists *)
Lemma tpath_ind' : forall P : tpath -> Prop,
  (forall p, P (TParam p)) ->
  (forall ptoks params, Forall P params -> P (TPath ptoks params)) ->
  (forall o, P o -> P (TVec o)) ->
  (forall len o, P o -> P (TArray len o)) ->
  (forall els, Forall P els -> P (TTuple els)) ->
  (forall p, P (TPrim p)) ->
  (forall i f c, P i -> P (TCompact i f c)) ->
  (forall o st b, P o -> P st -> P (TBitVec o st b)) ->
  forall t, P t.
Proof.
  intros P HParam HPath HVec HArr HTup HPrim HComp HBit.
  fix IH 1. intros t. destruct t as [p|ptoks params|o|len o|els|p|i f c|o st b].
  - apply HParam.
  - apply HPath.
    exact ((fix go (l : list tpath) : Forall P l :=
              match l with
              | [] => Forall_nil P
              | x :: l' => Forall_cons x (IH x) (go l')
              end) params).
  - apply HVec, IH.
  - apply HArr, IH.
  - apply HTup.
    exact ((fix go (l : list tpath) : Forall P l :=
              match l with
              | [] => Forall_nil P
              | x :: l' => Forall_cons x (IH x) (go l')
              end) els).
  - apply HPrim.
  - apply HComp, IH.
  - apply HBit; apply IH.
Qed.

(** ** result-monad helpers *)
Lemma rmap_ok {A B} (f : A -> B) a : rmap f (Ok a) = Ok (f a).
Proof. reflexivity. Qed.

Lemma bind_rmap {A B C} (g : A -> B) (x : result A) (k : B -> result C) :
  bind (rmap g x) k = bind x (fun a => k (g a)).
Proof. destruct x; reflexivity. Qed.

Lemma rmap_bind {A B C} (g : B -> C) (x : result A) (k : A -> result B) :
  rmap g (bind x k) = bind x (fun a => rmap g (k a)).
Proof. destruct x; reflexivity. Qed.

Lemma bind_ext {A B} (x : result A) (k1 k2 : A -> result B) :
  (forall a, k1 a = k2 a) -> bind x k1 = bind x k2.
Proof. intros H. destruct x; cbn; auto. Qed.

Lemma rmap_id {A} (x : result A) : rmap (fun a => a) x = x.
Proof. destruct x; reflexivity. Qed.

Lemma rmap_rmap {A B C} (f : A -> B) (g : B -> C) (x : result A) :
  rmap g (rmap f x) = rmap (fun a => g (f a)) x.
Proof. destruct x; reflexivity. Qed.

Lemma rmap_ext {A B} (f g : A -> B) (x : result A) :
  (forall a, f a = g a) -> rmap f x = rmap g x.
Proof. intros H. destruct x; cbn; try rewrite H; reflexivity. Qed.

Lemma mapM_cons {A B} (f : A -> result B) x l :
  mapM f (x :: l) = let* y := f x in let* ys := mapM f l in Ok (y :: ys).
Proof. reflexivity. Qed.

(** [mapM] of a transformed function over a transformed list *)
Lemma mapM_map_rmap {A A' B B'} (f1 : A -> result B) (f2 : A' -> result B')
      (g : A -> A') (h : B -> B') l :
  Forall (fun x => f2 (g x) = rmap h (f1 x)) l ->
  mapM f2 (map g l) = rmap (map h) (mapM f1 l).
Proof.
  induction 1 as [|x l Hx Hl IH]; [reflexivity|].
  cbn [map]. rewrite !mapM_cons, Hx, IH.
  destruct (f1 x) as [y|e|m]; cbn; [|reflexivity|reflexivity].
  destruct (mapM f1 l) as [ys|e|m]; reflexivity.
Qed.

Lemma mapM_map_rmap_all {A A' B B'} (f1 : A -> result B) (f2 : A' -> result B')
      (g : A -> A') (h : B -> B') l :
  (forall x, f2 (g x) = rmap h (f1 x)) ->
  mapM f2 (map g l) = rmap (map h) (mapM f1 l).
Proof. intros H. apply mapM_map_rmap. apply Forall_forall. intros x _. apply H. Qed.

Lemma mapM_rmap_all {A B B'} (f1 : A -> result B) (f2 : A -> result B') (h : B -> B') l :
  (forall x, In x l -> f2 x = rmap h (f1 x)) ->
  mapM f2 l = rmap (map h) (mapM f1 l).
Proof.
  intros H. rewrite <- (map_id l) at 1. apply mapM_map_rmap.
  apply Forall_forall. exact H.
Qed.

(** ** unfolding equations of [tp_tokens] *)
Lemma tp_tokens_go alloc l :
  (fix go (l : list tpath) : result (list tokens) :=
     match l with
     | [] => Ok []
     | x :: l' => let* y := tp_tokens alloc x in let* ys := go l' in Ok (y :: ys)
     end) l = mapM (tp_tokens alloc) l.
Proof.
  induction l as [|x l IH]; [reflexivity|].
  rewrite mapM_cons, <- IH. reflexivity.
Qed.

Lemma tp_tokens_TPath alloc ptoks params :
  tp_tokens alloc (TPath ptoks params) =
  let* ps := mapM (tp_tokens alloc) params in
  match ps with
  | [] => Ok ptoks
  | _ => Ok (ptoks ++ ["<"] ++ sep_by [","] ps ++ [">"])
  end.
Proof. rewrite <- tp_tokens_go. reflexivity. Qed.

Lemma tp_tokens_TTuple alloc els :
  tp_tokens alloc (TTuple els) =
  let* es := mapM (tp_tokens alloc) els in
  Ok (["("] ++ flat_map (fun e => e ++ [","]) es ++ [")"]).
Proof. rewrite <- tp_tokens_go. reflexivity. Qed.

Lemma tp_tokens_TVec alloc o :
  tp_tokens alloc (TVec o) =
  let* t := tp_tokens alloc o in Ok (alloc ++ abs_path ["vec"; "Vec"] ++ ["<"] ++ t ++ [">"]).
Proof. reflexivity. Qed.

Lemma tp_tokens_TArray alloc len o :
  tp_tokens alloc (TArray len o) =
  let* t := tp_tokens alloc o in
  Ok (["["] ++ t ++ [";"; String.append (N_to_string len) "usize"; "]"]).
Proof. reflexivity. Qed.

(** a compact field whose inner path is a tuple / an array panics ([parse_quote!] into a
    [syn::TypePath]); the test does not look at any token *)
Lemma tp_tokens_TCompact alloc i f c :
  tp_tokens alloc (TCompact i f c) =
  let* t := tp_tokens alloc i in
  if f && tuple_or_array i then Panic "compact field: inner type is not a type path"
  else if f then Ok t else Ok (c ++ ["<"] ++ t ++ [">"]).
Proof. destruct f; [destruct i|]; reflexivity. Qed.

Lemma tuple_or_array_map_tpath phi t : tuple_or_array (map_tpath phi t) = tuple_or_array t.
Proof. destruct t; reflexivity. Qed.

Lemma tp_tokens_TBitVec alloc o st b :
  tp_tokens alloc (TBitVec o st b) =
  let* x := tp_tokens alloc o in
  let* y := tp_tokens alloc st in
  Ok (b ++ ["<"] ++ y ++ [","] ++ x ++ [">"]).
Proof. reflexivity. Qed.

(** ** literals *)
Lemma existsb_In w l : existsb (String.eqb w) l = true -> In w l.
Proof.
  intros H. apply existsb_exists in H as (x & Hx & E). apply String.eqb_eq in E. subst; exact Hx.
Qed.

Lemma phi_ok_base phi d c w :
  phi_ok phi d c -> existsb (String.eqb w) base_lits = true -> phi w = w.
Proof.
  intros H E. apply H. left. unfold lits_of. apply in_or_app. left. apply existsb_In; exact E.
Qed.

Lemma phi_ok_param phi d c n : phi_ok phi d c -> phi (String.append "_" (N_to_string n)) = String.append "_" (N_to_string n).
Proof. intros H. apply H. right; left. exists n; reflexivity. Qed.

Lemma phi_ok_num phi d c n : phi_ok phi d c -> phi (N_to_string n) = N_to_string n.
Proof. intros H. apply H. right; right; left. exists n; reflexivity. Qed.

Lemma phi_ok_usize phi d c n :
  phi_ok phi d c -> phi (String.append (N_to_string n) "usize") = String.append (N_to_string n) "usize".
Proof. intros H. apply H. right; right; right; left. exists n; reflexivity. Qed.

Lemma phi_ok_litstr phi d c x : phi_ok phi d c -> phi (lit_string x) = lit_string x.
Proof. intros H. apply H. right; right; right; right. exists x; reflexivity. Qed.

(** a list of base literals is left alone *)
Lemma map_phi_base phi d c l :
  phi_ok phi d c -> forallb (fun w => existsb (String.eqb w) base_lits) l = true -> map phi l = l.
Proof.
  intros H. induction l as [|w l IH]; cbn [forallb map]; intros E; [reflexivity|].
  apply andb_true_iff in E as [E1 E2]. rewrite (phi_ok_base _ _ _ _ H E1), IH by exact E2. reflexivity.
Qed.

Lemma sep_by_map (phi : string -> string) sep (l : list tokens) :
  map phi (sep_by sep l) = sep_by (map phi sep) (map (map phi) l).
Proof.
  induction l as [|x l IH]; [reflexivity|].
  destruct l as [|y l]; [reflexivity|].
  change (sep_by sep (x :: y :: l)) with (x ++ sep ++ sep_by sep (y :: l)).
  change (map (map phi) (x :: y :: l)) with (map phi x :: map (map phi) (y :: l)).
  change (sep_by (map phi sep) (map phi x :: map (map phi) (y :: l)))
    with (map phi x ++ map phi sep ++ sep_by (map phi sep) (map (map phi) (y :: l))).
  rewrite !map_app, IH. reflexivity.
Qed.

Lemma flat_map_map_tokens (phi : string -> string) (sep : tokens) (l : list tokens) :
  map phi (flat_map (fun e => e ++ sep) l) = flat_map (fun e => e ++ map phi sep) (map (map phi) l).
Proof.
  induction l as [|x l IH]; [reflexivity|].
  cbn [flat_map map]. rewrite !map_app, IH. reflexivity.
Qed.

Lemma prim_tokens_map phi d c alloc p :
  phi_ok phi d c -> prim_tokens (map phi alloc) p = rmap (map phi) (prim_tokens alloc p).
Proof.
  intros H. destruct p; cbn [prim_tokens rmap bind]; try reflexivity;
    try (rewrite (map_phi_base phi d c) by (exact H || reflexivity); reflexivity).
  rewrite map_app. rewrite (map_phi_base phi d c (abs_path _)) by (exact H || reflexivity). reflexivity.
Qed.

(** ** [tp_tokens] commutes with a renaming that fixes the literals *)
Theorem tp_tokens_map phi d c alloc t :
  phi_ok phi d c ->
  tp_tokens (map phi alloc) (map_tpath phi t) = rmap (map phi) (tp_tokens alloc t).
Proof.
  intros H. induction t as [p|ptoks params IH|o IH|len o IH|els IH|p|i f cp IH|o st b IHo IHs]
                          using tpath_ind'.
  - cbn [map_tpath tp_tokens rmap bind map]. unfold tpi_name.
    rewrite (phi_ok_param _ _ _ _ H). reflexivity.
  - cbn [map_tpath]. rewrite !tp_tokens_TPath.
    rewrite (mapM_map_rmap (tp_tokens alloc) (tp_tokens (map phi alloc)) (map_tpath phi) (map phi) params IH).
    destruct (mapM (tp_tokens alloc) params) as [ps|e|m]; [|reflexivity|reflexivity].
    destruct ps as [|x ps]; [reflexivity|].
    cbn [rmap bind map]. rewrite !map_app, sep_by_map. cbn [map].
    rewrite !(phi_ok_base _ _ _ _ H) by reflexivity. reflexivity.
  - cbn [map_tpath]. rewrite !tp_tokens_TVec, IH.
    destruct (tp_tokens alloc o) as [x|e|m]; [|reflexivity|reflexivity].
    cbn [rmap bind]. rewrite !map_app.
    rewrite (map_phi_base phi d c (abs_path _)) by (exact H || reflexivity).
    cbn [map]. rewrite !(phi_ok_base _ _ _ _ H) by reflexivity. reflexivity.
  - cbn [map_tpath]. rewrite !tp_tokens_TArray, IH.
    destruct (tp_tokens alloc o) as [x|e|m]; [|reflexivity|reflexivity].
    cbn [rmap bind]. rewrite !map_app. cbn [map].
    rewrite (phi_ok_usize _ _ _ _ H), !(phi_ok_base _ _ _ _ H) by reflexivity. reflexivity.
  - cbn [map_tpath]. rewrite !tp_tokens_TTuple.
    rewrite (mapM_map_rmap (tp_tokens alloc) (tp_tokens (map phi alloc)) (map_tpath phi) (map phi) els IH).
    destruct (mapM (tp_tokens alloc) els) as [es|e|m]; [|reflexivity|reflexivity].
    cbn [rmap bind]. rewrite !map_app, flat_map_map_tokens. cbn [map].
    rewrite !(phi_ok_base _ _ _ _ H) by reflexivity. reflexivity.
  - cbn [map_tpath tp_tokens]. apply (prim_tokens_map phi d c); exact H.
  - cbn [map_tpath]. rewrite !tp_tokens_TCompact, IH, tuple_or_array_map_tpath.
    destruct (tp_tokens alloc i) as [x|e|m]; [|reflexivity|reflexivity].
    destruct f; [destruct (tuple_or_array i)|]; cbn [andb rmap bind]; [reflexivity|reflexivity|].
    rewrite !map_app. cbn [map]. rewrite !(phi_ok_base _ _ _ _ H) by reflexivity. reflexivity.
  - cbn [map_tpath]. rewrite !tp_tokens_TBitVec, IHo, IHs.
    destruct (tp_tokens alloc o) as [x|e|m]; [|reflexivity|reflexivity].
    destruct (tp_tokens alloc st) as [y|e|m]; [|reflexivity|reflexivity].
    cbn [rmap bind]. rewrite !map_app. cbn [map].
    rewrite !(phi_ok_base _ _ _ _ H) by reflexivity. reflexivity.
Qed.

(** ** a renaming that fixes every stored token leaves the path alone *)
Lemma map_fixed (phi : string -> string) (l : list string) :
  (forall w, In w l -> phi w = w) -> map phi l = l.
Proof.
  induction l as [|x l IH]; intros H; [reflexivity|].
  cbn [map]. rewrite (H x) by (left; reflexivity). rewrite IH; [reflexivity|].
  intros w Hw. apply H. right; exact Hw.
Qed.

Lemma map_fixed_Forall {A} (f : A -> A) (l : list A) :
  Forall (fun x => f x = x) l -> map f l = l.
Proof. induction 1 as [|x l Hx Hl IH]; [reflexivity|]. cbn [map]. rewrite Hx, IH. reflexivity. Qed.

Lemma map_tpath_fixed phi t :
  (forall w, In w (tpath_inputs t) -> phi w = w) -> map_tpath phi t = t.
Proof.
  induction t as [p|ptoks params IH|o IH|len o IH|els IH|p|i f cp IH|o st b IHo IHs]
                 using tpath_ind'; cbn [map_tpath tpath_inputs]; intros H.
  - reflexivity.
  - rewrite (map_fixed phi ptoks) by (intros w Hw; apply H, in_or_app; left; exact Hw).
    f_equal. apply map_fixed_Forall. rewrite Forall_forall in IH |- *.
    intros x Hx. apply IH; [exact Hx|]. intros w Hw. apply H, in_or_app; right.
    apply in_flat_map. exists x; split; assumption.
  - rewrite IH by exact H. reflexivity.
  - rewrite IH by exact H. reflexivity.
  - f_equal. apply map_fixed_Forall. rewrite Forall_forall in IH |- *.
    intros x Hx. apply IH; [exact Hx|]. intros w Hw. apply H.
    apply in_flat_map. exists x; split; assumption.
  - reflexivity.
  - rewrite IH by (intros w Hw; apply H, in_or_app; left; exact Hw).
    rewrite (map_fixed phi cp) by (intros w Hw; apply H, in_or_app; right; exact Hw). reflexivity.
  - rewrite IHo by (intros w Hw; apply H, in_or_app; left; exact Hw).
    rewrite IHs by (intros w Hw; apply H, in_or_app; right; apply in_or_app; left; exact Hw).
    rewrite (map_fixed phi b) by (intros w Hw; apply H, in_or_app; right; apply in_or_app; right; exact Hw).
    reflexivity.
Qed.
