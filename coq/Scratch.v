From Coq Require Import List NArith String Bool.
From V Require Import Base.Util Base.Strings Base.Result Model.Registry Model.Settings Model.Subst
  Model.TypePath Model.Derives Model.Generate Model.Equal Model.Shape Proofs.FidelityExample.
Import ListNotations.
Eval vm_compute in (map fst ex_items).
Eval vm_compute in ex_paths.
Eval vm_compute in (skeleton_consistentb ex_reg ex_settings, root_freshb ex_settings).
Eval vm_compute in (faithful_upto ex_reg ex_settings ex_items 8).
Eval vm_compute in (shape_reg ex_reg ex_settings 3 12).
Eval vm_compute in (shape_reg ex_reg ex_settings 3 10).
